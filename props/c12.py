"""C12 — packet object trees keep sound ownership under copy, move, clone and re-linking."""
import common as C

OPS2 = ['clone', 'copy', 'assign', 'move', 'massign', 'setinner', 'setinnerref', 'release', 'div']
NV, NP, NCLS = 8, 4, 9


def gen(rng, sid, n):
    lines = []
    live = set()
    for _ in range(n):
        r = rng.random()
        if r < 0.22 or not live:
            v = rng.randrange(NV)
            lines.append('mk %d %d %d' % (v, rng.randrange(NCLS), rng.randrange(1, 60000)))
            live.add(v)
        elif r < 0.70:
            op = rng.choice(OPS2)
            v, w = rng.randrange(NV), rng.randrange(NV)
            if rng.random() < 0.6 and live:
                w = rng.choice(sorted(live))
            lines.append('%s %d %d' % (op, v, w))
        elif r < 0.78:
            lines.append('del %d' % rng.randrange(NV))
        elif r < 0.86:
            lines.append('tag %d %d %d' % (rng.randrange(NV), rng.randrange(4), rng.randrange(1, 60000)))
        else:
            op = rng.choice(['pkwrap', 'pkown', 'pkcopy', 'pkmove', 'pkrel', 'pkdiv'])
            if op in ('pkwrap', 'pkown', 'pkdiv'):
                lines.append('%s %d %d' % (op, rng.randrange(NP), rng.randrange(NV)))
            elif op == 'pkrel':
                lines.append('%s %d %d' % (op, rng.randrange(NV), rng.randrange(NP)))
            else:
                lines.append('%s %d %d' % (op, rng.randrange(NP), rng.randrange(NP)))
    # make same-class pairs likely: duplicate some classes
    return (sid, lines)


def gen_sameclass(rng, sid, n):
    """programs biased towards assign/massign between chains of different lengths with equal head class"""
    cls = rng.randrange(NCLS)
    lines = []
    for v in range(4):
        lines.append('mk %d %d %d' % (v, cls, rng.randrange(1, 60000)))
    for _ in range(n):
        r = rng.random()
        if r < 0.3:
            lines.append('mk %d %d %d' % (rng.randrange(4, NV), rng.randrange(NCLS), rng.randrange(1, 60000)))
        elif r < 0.5:
            lines.append('%s %d %d' % (rng.choice(['setinner', 'div', 'setinnerref']), rng.randrange(4), rng.randrange(4, NV)))
        elif r < 0.85:
            lines.append('%s %d %d' % (rng.choice(['assign', 'massign', 'assign']), rng.randrange(4), rng.randrange(4)))
        elif r < 0.93:
            lines.append('release %d %d' % (rng.randrange(4, NV), rng.randrange(4)))
        else:
            lines.append('tag %d %d %d' % (rng.randrange(4), rng.randrange(3), rng.randrange(1, 60000)))
    return (sid, lines)


def reference(lines):
    """value-semantics reference: variables hold chains (lists of [cls, tag]); independent of the Coq model"""
    vars_ = [None] * (NV + NP)
    outs = []
    for line in lines:
        t = line.split()
        op = t[0]
        a = int(t[1]) if len(t) > 1 else 0
        b = int(t[2]) if len(t) > 2 else 0
        c = int(t[3]) if len(t) > 3 else 0
        V = vars_
        isv = lambda i: 0 <= i < NV
        isp = lambda i: 0 <= i < NP
        cp = lambda ch: [list(l) for l in ch]
        if op == 'mk':
            if isv(a) and V[a] is None and b < NCLS:
                V[a] = [[b, c]]
        elif op in ('clone', 'copy'):
            if isv(a) and isv(b) and V[a] is None and V[b] is not None:
                V[a] = cp(V[b])
        elif op == 'assign':
            if isv(a) and isv(b) and a != b and V[a] and V[b] and V[a][0][0] == V[b][0][0]:
                V[a] = cp(V[b])
        elif op == 'move':
            if isv(a) and isv(b) and V[a] is None and V[b]:
                V[a] = cp(V[b]); V[b] = [[V[b][0][0], 0]]
        elif op == 'massign':
            if isv(a) and isv(b) and a != b and V[a] and V[b] and V[a][0][0] == V[b][0][0]:
                V[a] = cp(V[b]); V[b] = [[V[b][0][0], 0]]
        elif op == 'setinner':
            if isv(a) and isv(b) and a != b and V[a] and V[b]:
                V[a] = V[a][:1] + V[b]; V[b] = None
        elif op == 'setinnerref':
            if isv(a) and isv(b) and V[a] and V[b]:
                V[a] = V[a][:1] + cp(V[b])
        elif op == 'release':
            if isv(a) and isv(b) and V[a] is None and V[b]:
                rest = V[b][1:]; V[b] = V[b][:1]; V[a] = rest if rest else None
        elif op == 'div':
            if isv(a) and isv(b) and V[a] and V[b]:
                V[a] = V[a] + cp(V[b])
        elif op == 'del':
            if isv(a):
                V[a] = None
        elif op == 'tag':
            if isv(a) and V[a] and b < len(V[a]):
                V[a][b][1] = c
        elif op == 'pkwrap':
            if isp(a) and isv(b) and V[NV + a] is None and V[b]:
                V[NV + a] = cp(V[b])
        elif op == 'pkown':
            if isp(a) and isv(b) and V[NV + a] is None and V[b]:
                V[NV + a] = V[b]; V[b] = None
        elif op == 'pkcopy':
            if isp(a) and isp(b) and a != b:
                V[NV + a] = cp(V[NV + b]) if V[NV + b] else None
        elif op == 'pkmove':
            if isp(a) and isp(b) and a != b:
                V[NV + a], V[NV + b] = V[NV + b], V[NV + a]
        elif op == 'pkrel':
            if isv(a) and isp(b) and V[a] is None:
                V[a] = V[NV + b]; V[NV + b] = None
        elif op == 'pkdiv':
            if isp(a) and isv(b) and V[NV + a] and V[b]:
                V[NV + a] = V[NV + a] + cp(V[b])
        s = ' '.join('[%d [%s]]' % (i if i < NV else 100 + i - NV, ' '.join('[%d %d 1]' % (l[0], l[1]) for l in ch))
                     for i, ch in enumerate(V) if ch is not None)
        outs.append('[' + s + ']')
    return outs


def oracle(lines, lh):
    exp = reference(lines)
    bad = []
    main = [l for l in lh if not l.startswith('!!')]
    for i, e in enumerate(exp):
        got = main[i] if i < len(main) else '<missing>'
        if got != e:
            what = 'ALIAS (two owners of one layer)' if got.endswith('ALIAS') else ('a parent link does not designate the owner' if ' 0]' in got else 'object graph differs')
            bad.append('op %d (%s): %s: C++ "%s" vs reference "%s"' % (i, lines[i], what, got[:400], e[:400]))
            break
    return bad


def cmp(lm, lh):
    return C.default_cmp(lm, [l for l in lh if not l.startswith('!!')])


def nontrivial(lines, lh):
    ops = set(l.split()[0] for l in lines)
    return len(ops) >= 4 and any('] [' in l.split(']]')[0] for l in lh if '[[' in l)


def tval(cls, tag):
    return tag


def run(ctx):
    ctx.cov['trusted_base'] += ['extraction: ExtrOcamlBasic only; harness/driver.ml; harness/h_tree.cpp (9 layer classes incl. DNS, Dot11Data; Packet wrapper)',
                                'object identities are model-only; in C++ aliasing/leaks/double frees are observed by address comparison, ASan and LSan (not proved about the allocator)']
    ok, why = C.prove(ctx, 'C12')
    runner_ok = True
    try:
        C.build_runner()
    except C.BuildError as e:
        runner_ok = False; ok = False; why = (why + '\n' + str(e)).strip()
    C.build_harness('h_tree')
    rng = ctx.rng
    quick = ctx.tier == 'quick'
    batch = []
    n1, n2 = (1500, 700) if quick else (30000, 10000)
    for i in range(n1):
        batch.append(gen(rng, 'p%d' % i, rng.choice([6, 12, 25, 40])))
    for i in range(n2):
        batch.append(gen_sameclass(rng, 's%d' % i, rng.choice([6, 12, 20])))
    stats = C.differential(ctx, 'tree', 'h_tree', batch, oracle, cmp=cmp, keep_first=0, nontrivial=nontrivial, runner_ok=runner_ok)
    # ---- copies taken from INNER layers (clone() / copy constructor of a layer that has a parent): a fresh root, parent link
    #      none, the layer's own chain -- judged by a Python reference of mk / div / subclone / subcopy / tag (outside the Coq model)
    subs = []
    for i in range(300 if quick else 6000):
        lines, forest = [], {}
        for v in range(rng.randrange(2, 5)):
            cls, tag = rng.randrange(9), rng.randrange(1, 60000)
            lines.append('mk %d %d %d' % (v, cls, tag)); forest[v] = [[cls, tag]]
        exp = [dict((k, [list(x) for x in ch]) for k, ch in forest.items())]
        for _ in range(rng.randrange(2, 9)):
            r = rng.random()
            live = sorted(forest)
            free = [v for v in range(8) if v not in forest]
            if r < 0.45:
                a_, b_ = rng.choice(live), rng.choice(live)
                if len(forest[a_]) + len(forest[b_]) > 12:
                    continue
                lines.append('div %d %d' % (a_, b_)); forest[a_] = forest[a_] + [list(x) for x in forest[b_]]
            elif r < 0.85 and free:
                b_ = rng.choice(live); d = rng.randrange(0, len(forest[b_])); a_ = rng.choice(free)
                if forest[b_][d][0] == 0 and d == 0 and False:
                    continue
                lines.append('%s %d %d %d' % (rng.choice(['subclone', 'subcopy']), a_, b_, d)); forest[a_] = [list(x) for x in forest[b_][d:]]
            else:
                a_ = rng.choice(live); d = rng.randrange(0, len(forest[a_])); val = rng.randrange(1, 60000)
                lines.append('tag %d %d %d' % (a_, d, val)); forest[a_][d][1] = val
            exp.append(dict((k, [list(x) for x in ch]) for k, ch in forest.items()))
        subs.append(('u%d' % i, lines, exp))
    uh = C.run_harness('h_tree', [(sid, lines) for sid, lines, _ in subs])
    ctx.cov['evaluations'] += len(subs)
    sub_bad = 0
    for sid, lines, exp in subs:
        lh = [l for l in uh.get(sid, []) if not l.startswith('!~')]
        want = []
        nmk = sum(1 for l in lines if l.startswith('mk '))
        states = [None] * (nmk - 1) + exp          # the forest after the last mk, then after every further op
        bad = None
        crash = [l for l in lh if l.startswith('!!')]
        if crash:
            bad = crash[0]
        else:
            for j, st in enumerate(states):
                if st is None:
                    continue
                w = '[' + ' '.join('[%d [%s]]' % (v, ' '.join('[%d %d 1]' % (c, tval(c, t)) for c, t in st[v])) for v in sorted(st)) + ']'
                g = lh[j] if j < len(lh) else '<missing>'
                if g != w:
                    bad = 'after "%s": the forest is %s, a deep copy rooted at the copied layer gives %s' % (lines[j], g[:160], w[:160])
                    break
        if bad:
            sub_bad += 1
            if sub_bad <= 2:
                ctx.violation(bad[:300], '=== replay\n' + '\n'.join(lines) + '\n--- ' + bad + '\n--- C++ output\n' + '\n'.join(lh) + '\n')
    # ---- the caching wrapper with a child of its own: clone() must be deep (harness h_pkt: newc / push / raw / clone) ----
    C.build_harness('h_pkt')
    cs = []
    for i, k in enumerate(['UDP', 'TCP', 'IP', 'ICMP', 'EthernetII'] * (2 if quick else 20)):
        # (a transport layer directly on a PDUCacher<IP> casts its parent to IP: that is the recorded C13 finding, not this property's subject)
        tail = [['raw x' + bytes(rng.randrange(256) for _ in range(rng.randrange(1, 20))).hex()]]
        if k == 'EthernetII':
            tail += [['push IP', 'push UDP', 'raw x0102'], ['push IP', 'push TCP']]
        tail = rng.choice(tail)
        cs.append(('k%d' % i, ['newc ' + k] + tail + ['clone']))
    kh = C.run_harness('h_pkt', cs)
    ctx.cov['evaluations'] += len(cs)
    for sid, lines in cs:
        lh = [l for l in kh.get(sid, []) if not l.startswith('!~')]
        if any(l.startswith('!!') for l in lh) or not lh or lh[-1].strip() != 'C 1':
            ctx.violation('PDUCacher with layers stacked on it: clone() is not equal to its source (%s)' % (lh[-1] if lh else '<none>')[:80],
                          '=== replay (harness h_pkt)\n' + '\n'.join(lines) + '\n--- C++ output\n' + '\n'.join(l[:300] for l in lh) + '\n')
            break
    # ---- layers whose ownership is taken over with release_inner_pdu() by the legacy stream follower: every payload layer it takes
    #      must be freed, whatever becomes of the segment (delivered, buffered, duplicate, stale retransmission) -- LSan in harness h_dt
    C.build_harness('h_dt')
    ts_ = []
    for i in range(40 if quick else 800):
        isn = rng.choice([0, 1000, 4294967290, rng.randrange(1 << 32)])
        data = [rng.randrange(256) for _ in range(rng.choice([8, 20, 40]))]
        lines = ['new %d' % isn]
        for _ in range(rng.randrange(2, 9)):
            a_ = rng.randrange(0, len(data)); ln = rng.randrange(0, len(data) - a_ + 1)
            lines.append('seg %d x%s' % ((isn + a_) % (1 << 32), ''.join('%02x' % x for x in data[a_:a_ + ln])))
        ts_.append(('t%d' % i, lines))
    th_ = C.run_harness('h_dt', ts_)
    ctx.cov['evaluations'] += len(ts_)
    for sid, lines in ts_:
        crash = [l for l in th_.get(sid, []) if l.startswith('!!')]
        if crash:
            ctx.violation('legacy TCPStream over segments of one stream (duplicates, partial retransmissions): %s' % crash[0][:200],
                          '=== replay (harness h_dt)\n' + '\n'.join(lines) + '\n--- C++ output\n' + '\n'.join(l[:300] for l in th_.get(sid, [])) + '\n')
            break
    # ---- ... and by the IPv4 reassembler (fragments, duplicates included): every payload layer it takes over is freed or put back,
    #      the caller's packet keeps its layers -- LSan in harness h_ipr
    C.build_harness('h_ipr')
    rs_ = []
    for i in range(30 if quick else 600):
        n = rng.choice([24, 40, 64]); pay = bytes(rng.randrange(256) for _ in range(n))
        cuts = sorted(set([0, n] + [8 * rng.randrange(1, n // 8) for _ in range(rng.randrange(1, 4))]))
        frs = [(a_, b_) for a_, b_ in zip(cuts, cuts[1:])]
        order = frs + [rng.choice(frs) for _ in range(rng.randrange(1, 4))]       # duplicates
        rng.shuffle(order)
        rs_.append(('i%d' % i, ['pkt 77 167772161 167772162 253 64 0 0 %d %d x%s' % (0 if b_ == n else 1, a_ // 8, pay[a_:b_].hex()) for a_, b_ in order]))
    rh_ = C.run_harness('h_ipr', rs_)
    ctx.cov['evaluations'] += len(rs_)
    for sid, lines in rs_:
        crash = [l for l in rh_.get(sid, []) if l.startswith('!!')]
        if crash:
            ctx.violation('IPv4Reassembler over fragments with duplicates: %s' % crash[0][:200],
                          '=== replay (harness h_ipr)\n' + '\n'.join(lines) + '\n--- C++ output\n' + '\n'.join(l[:300] for l in rh_.get(sid, [])) + '\n')
            break
    ctx.cov['rule'] = ('random programs over 18 operations on a pool of 8 objects (9 layer classes) and 4 Packet wrappers, plus programs biased to copy/move '
                       'assignment between chains of different lengths with the same head class; copies taken from inner layers (subclone/subcopy) and clones of a PDUCacher with stacked layers are judged by a Python reference only (not operations of the Coq model); non-trivial = distinct program using >=4 operation kinds that builds a multi-layer chain')
    ctx.cov['samples'] = [batch[0][1][:10], batch[n1][1][:10]]
    ctx.notes['stats'] = stats
    C.obligations_failed(ctx, ok, why, 'theorems of Properties/C12.v no longer check')


def replay(ctx, path):
    C.build_runner(); C.build_harness('h_tree')
    C.differential(ctx, 'tree', 'h_tree', [('replay', C.read_replay(path))], oracle, cmp=cmp, keep_first=0)
    return ctx.finish()
