"""C13 — layer look-up and casts never hand back an object of the wrong type."""
import json, os
import common as C


def run(ctx):
    st = C.run_translators(('gen_classtable',))
    g = st['gen_classtable']
    ctx.notes['classtable'] = g
    ctx.cov['trusted_base'] += ['translate/gen_classtable.py: header scan for pdu_flag + generated C++ program compiled against the current headers/library (g++ 12)',
                                'std::is_base_of as the meaning of "really is a T" (cross-checked against dynamic_cast on live objects)']
    if not g.get('ok'):
        ctx.violation('class table cannot be regenerated from the current headers: ' + g.get('why', '')[:300],
                      'TRANSLATOR FAILURE\n' + g.get('why', ''), has_input=False, suffix='txt')
        return
    ok, why = C.prove(ctx, 'C13')
    T = json.load(open(os.path.join(C.BUILD, 'classtable.json')))
    tn, tf = T['tnames'], T['tflags']
    known, _ = C.load_known('C13')
    pairs = 0
    nontriv = 0
    samples = []
    viol = []
    for r in T['rows']:
        is_cacher = r['name'].startswith('PDUCacher_')
        mflags = set(tf[j] for j in range(len(tn)) if r['M'][j])
        for j, t in enumerate(tn):
            pairs += 1
            pred_find = tf[j] in mflags
            pred_cast = tf[j] == r['type']
            live_find, live_cast, live_dyn = bool(r['F'][j]), bool(r['C'][j]), bool(r['D'][j])
            if live_find or live_cast or live_dyn:
                nontriv += 1
                if len(samples) < 6:
                    samples.append({'K': r['name'], 'T': t, 'find_pdu': live_find, 'tins_cast': live_cast, 'dynamic_cast': live_dyn})
            # correspondence: table-derived predictions vs the helpers on live objects
            if pred_find != live_find or pred_cast != live_cast or bool(r['B'][j]) != live_dyn:
                viol.append((False, 'table/live disagreement for K=%s T=%s: table says find=%s cast=%s is_a=%s, live objects say find=%s cast=%s dynamic_cast=%s'
                             % (r['name'], t, pred_find, pred_cast, bool(r['B'][j]), live_find, live_cast, live_dyn), r, t))
            # the property itself on live objects
            if (live_find or live_cast) and not live_dyn:
                if is_cacher and any(k['key'] == 'pducacher' for k in known):
                    ctx.known(next(k['text'] for k in known if k['key'] == 'pducacher'))
                else:
                    viol.append((True, 'K=%s T=%s: %s returns a non-null %s* but the object is not a %s (dynamic_cast is null)'
                                 % (r['name'], t, 'find_pdu' if live_find else 'tins_cast', t, t), r, t))
        if r['name'] in tn:
            j = tn.index(r['name'])
            if not r['F'][j]:
                viol.append((True, 'K=%s: find_pdu<%s>() on an object of exactly that class returns null' % (r['name'], r['name']), r, r['name']))
    # the answer must not depend on the object's field values: every default-constructible class after random calls of its
    # scalar setters still reports its own pdu_type() (seeded mutation C13b_m2 derived it from a settable header field)
    import pktcommon as PC
    try:
        st2, acc = PC.prepare(ctx, ('gen_accessors',))
        fl = [l.split() for l in C.run_harness('h_pkt', [('fl', ['fields'])]).get('fl', [])]
        by_cls = {}
        for t4 in fl:
            if len(t4) == 4 and t4[2] in ('1', '2', '3'):
                by_cls.setdefault(t4[0], []).append((t4[1], int(t4[2]), int(t4[3])))
        type_of = {r['name']: r['type'] for r in T['rows']}
        ms = []
        for cls in acc['default_constructible']:
            if cls not in type_of:
                continue
            for rep in range(6 if ctx.tier == 'quick' else 60):
                lines = ['new ' + cls]
                for (f, kind, bits) in by_cls.get(cls, []):
                    if ctx.rng.random() < 0.7:
                        v = ctx.rng.randrange(4) if kind == 2 else ctx.rng.choice([0, 1, 2, 3, (1 << min(bits, 16)) - 1, ctx.rng.randrange(1 << min(bits, 32))])
                        lines.append('set 0 %s %d' % (f, v))
                lines.append('rows 0')
                lines.append('ptype')
                ms.append(('m%d' % len(ms), lines))
        # the caching wrapper around packets that carry inner layers of their own
        for k_ in ('IP', 'EthernetII', 'UDP', 'IPv6'):
            ms.append(('m%d' % len(ms), ['newcc ' + k_, 'rows 0']))
        # chains of every shape (a payload layer in the middle, the same class twice, tunnels): a search by a layer's own class started
        # at that layer returns that layer; and a transport layer under ANY parent class serializes without casting the parent wrongly
        dc_ = [c for c in acc['default_constructible'] if c in type_of and c not in ('PKTAP', 'PPI')]
        sf = []
        for rep in range(60 if ctx.tier == 'quick' else 1200):
            chain = [ctx.rng.choice(dc_ + ['RAW', 'RAW']) for _ in range(ctx.rng.randrange(2, 7))]
            if chain[0] == 'RAW':
                chain[0] = 'IP'
            sf.append(('f%d' % len(sf), ['new ' + chain[0]] + [('raw x0102' if c == 'RAW' else 'push ' + c) for c in chain[1:]] + ['selffind']))
        for c in dc_:
            for tr in ('UDP', 'TCP'):
                sf.append(('f%d' % len(sf), ['new ' + c, 'push ' + tr, 'raw x01020304', 'ser']))
        sfh = C.run_harness('h_pkt', sf)
        pairs += len(sf)
        for sid, lines in sf:
            out = [l for l in sfh.get(sid, []) if not l.startswith('!~')]
            crash = [l for l in out if l.startswith('!!')]
            if crash:
                viol.append((True, 'chain %s: %s' % ([l.split()[-1] for l in lines[:-1]], crash[0]), {'name': lines[0].split()[1], 'flag': 0, 'type': 0}, lines[0].split()[1]))
            elif lines[-1] == 'selffind' and out and out[-1].startswith('F') and '0' in out[-1].split()[1:]:
                j = out[-1].split()[1:].index('0')
                viol.append((True, 'chain %s: find_pdu<own class>() started at layer %d does not return that layer' % ([l.split()[-1] for l in lines[:-1]], j),
                             {'name': lines[0].split()[1], 'flag': 0, 'type': 0}, lines[0].split()[1]))
        tnames_h = (C.run_harness('h_pkt', [('tn', ['tnames'])]).get('tn') or ['T'])[0].split()[1:]
        mh = C.run_harness('h_pkt', ms)
        pairs += len(ms)
        for sid, lines in ms:
            cls = lines[0].split()[1]
            out = [l for l in mh.get(sid, []) if not l.startswith('!~')]
            last = out[-1] if out else ''
            rl = [l for l in out if l.startswith('R M')]
            if rl and tnames_h:
                # in whatever state the object is: answering to T's flag (what find_pdu / rfind_pdu act on) only if it IS a T
                tk = rl[-1].split()
                mrow, drow = tk[2:2 + len(tnames_h)], tk[3 + len(tnames_h):]
                wrong = [tnames_h[i] for i in range(min(len(mrow), len(drow))) if mrow[i] == '1' and drow[i] == '0']
                if lines[0].startswith('newcc '):
                    wrong = [w for w in wrong if w != cls]          # PDUCacher<X> answering to X itself is the recorded finding
                if wrong:
                    viol.append((True, 'K=%s%s after %s answers to the flag of %s without being one (find_pdu<%s> would hand it out as a %s)'
                                 % ('PDUCacher<%s> around a packet with inner layers' % cls if lines[0].startswith('newcc ') else cls, '', [l for l in lines[1:-1]][:6], wrong[:4], wrong[0], wrong[0]),
                                 {'name': cls, 'flag': type_of.get(cls, 0), 'type': type_of.get(cls, 0)}, wrong[0]))
                    continue
            if lines[0].startswith('newcc '):
                continue
            if any(l.startswith('!!') for l in out):
                viol.append((True, 'K=%s: %s after scalar setters' % (cls, [l for l in out if l.startswith('!!')][0]), {'name': cls, 'flag': type_of[cls], 'type': type_of[cls]}, cls))
            elif last.startswith('T ') and (int(last.split()[1]) != type_of[cls] or last.split()[2] != cls):
                viol.append((True, 'K=%s: after %s the object reports pdu_type() %s (its class has %d): look-ups by type are answered for the wrong class'
                             % (cls, [l for l in lines[1:-1]][:6], last.split()[1], type_of[cls]), {'name': cls, 'flag': type_of[cls], 'type': type_of[cls]}, cls))
    except C.BuildError as e:
        viol.append((False, 'mutated-state pass could not be built: %s' % str(e)[:200], {'name': '-', 'flag': 0, 'type': 0}, '-'))
    ctx.cov['evaluations'] = pairs
    ctx.cov['distinct_nontrivial'] = nontriv
    ctx.cov['exhaustive'] = True
    ctx.cov['traces_validated_against_impl'] = pairs
    ctx.cov['rule'] = ('all (K,T) pairs: K = every class with a live instance (%d incl. PDUCacher<X> for a spread of X), T = every class declaring pdu_flag (%d); '
                       'non-trivial = pairs where at least one of find_pdu / tins_cast / dynamic_cast succeeds' % (len(T['rows']), len(tn)))
    ctx.cov['samples'] = samples
    for has_input, text, r, t in viol[:5]:
        ctx.violation(text, 'PAIR K=%s T=%s\n%s\nrow=%s\n' % (r['name'], t, text, json.dumps({k: r[k] for k in ('name', 'flag', 'type')})), has_input=has_input, suffix='txt')
    if not ok and not any(v[0] for v in viol):
        C.obligations_failed(ctx, ok, why, 'C13_sound / C13_self no longer hold of the regenerated class table')


def replay(ctx, path):
    run(ctx)
    return ctx.finish()
