"""C14 — response matching accepts mirrored replies, rejects strangers, is memory-safe."""
import os, re, struct
import common as C
import pktcommon as PC


def ip4(v):
    return struct.pack('>I', v)


def mac(v):
    return v.to_bytes(8, 'big')[2:]


def ip6(v):
    """the IPv6Address the generated accessor table builds from a 64-bit script value"""
    return bytes(((v >> (8 * (i % 8))) + i) & 255 for i in range(16))


def h2(v):
    return struct.pack('>H', v).hex()


def gen(rng, sid):
    """request built through the API (h_pkt lines), its model encoding, the mirrored reply (python-built bytes), the matched fields,
    and extra (what, reply, expected) cases"""
    src_mac, dst_mac = rng.randrange(1 << 48) & ~(1 << 40), rng.randrange(1 << 48) & ~(1 << 40)     # unicast
    l2 = rng.choice(['none', 'eth', 'eth', 'ethq'])
    v6 = rng.random() < 0.35
    lines = []
    k = 0
    vid = rng.randrange(4096)
    if l2 != 'none':
        lines += ['new EthernetII', 'set 0 src_addr %d' % src_mac, 'set 0 dst_addr %d' % dst_mac]
        k = 1
        if l2 == 'ethq':
            lines += ['push Dot1Q', 'set 1 id %d' % vid]
            k = 2
        lines += ['push IPv6' if v6 else 'push IP']
    else:
        lines += ['new IPv6' if v6 else 'new IP']
    ident = rng.randrange(65536)
    if v6:
        s6, d6 = rng.randrange(1 << 64) & ~1, rng.randrange(1 << 64) & ~1          # first byte even: never ff02::
        mcast = None
        if rng.random() < 0.3:
            # a multicast destination: only link-local scope (ff02::/16) is answered by arbitrary sources
            mcast = rng.choice([1, 2, 2, 5, 8, 14])
            d6 = (d6 & ~0xffff) | 0xff | (((mcast - 1) & 0xff) << 8)        # ip6() adds the byte index: second byte = scope
        lines += ['set %d src_addr %d' % (k, s6), 'set %d dst_addr %d' % (k, d6)]
        sa, da = ip6(s6), ip6(d6)
    else:
        sip, dip = rng.randrange(1, 0xdfffffff), rng.randrange(1, 0xdfffffff)
        bcast4 = rng.random() < 0.2
        if bcast4:
            # limited broadcast (DHCP, discovery): anybody may answer, but the answer must be addressed to us -- unless we have no address yet
            dip = 0xffffffff
            if l2 != 'none' and rng.random() < 0.3:
                sip = 0
        lines += ['set %d src_addr %d' % (k, sip), 'set %d dst_addr %d' % (k, dip), 'set %d id %d' % (k, ident)]
        sa, da = ip4(sip), ip4(dip)
    sport, dport = rng.randrange(65536), rng.randrange(65536)
    icmp_id, icmp_seq = rng.randrange(65536), rng.randrange(65536)
    dns_id = rng.randrange(65536)
    payload = bytes(rng.randrange(256) for _ in range(rng.choice([1, 4, 12])))
    l4 = rng.choice(['UDP', 'TCP', 'ICMP', 'UDPDNS'])
    if l4 == 'UDP':
        lines += ['push UDP', 'set %d sport %d' % (k + 1, sport), 'set %d dport %d' % (k + 1, dport), 'raw x' + payload.hex()]
        inner = '[3 x%s x%s [7]]' % (h2(sport), h2(dport))
        proto = 17
        reply_l4 = struct.pack('>HHHH', dport, sport, 8 + len(payload), 0) + payload
        fields = [('sport', 0, 2), ('dport', 2, 2)]
    elif l4 == 'UDPDNS':
        lines += ['push UDP', 'set %d sport %d' % (k + 1, sport), 'set %d dport %d' % (k + 1, dport), 'push DNS', 'set %d id %d' % (k + 2, dns_id)]
        inner = '[3 x%s x%s [6 x%s]]' % (h2(sport), h2(dport), h2(dns_id))
        proto = 17
        reply_l4 = struct.pack('>HHHH', dport, sport, 20, 0) + struct.pack('>HHHHHH', dns_id, 0x8180, 0, 0, 0, 0)
        fields = [('sport', 0, 2), ('dport', 2, 2), ('dns id', 8, 2)]
    elif l4 == 'TCP':
        lines += ['push TCP', 'set %d sport %d' % (k + 1, sport), 'set %d dport %d' % (k + 1, dport)]
        inner = '[4 x%s x%s]' % (h2(sport), h2(dport))
        proto = 6
        reply_l4 = struct.pack('>HHIIBBHHH', dport, sport, 1, 2, 0x50, 0x12, 100, 0, 0)
        fields = [('sport', 0, 2), ('dport', 2, 2)]
    elif v6:
        lines += ['push ICMPv6', 'set %d type 128' % (k + 1), 'set %d identifier %d' % (k + 1, icmp_id), 'set %d sequence %d' % (k + 1, icmp_seq)]
        inner = '[10 128 x%s x%s]' % (h2(icmp_id), h2(icmp_seq))
        proto = 58
        reply_l4 = struct.pack('>BBHHH', 129, 0, 0, icmp_id, icmp_seq) + payload
        fields = [('icmpv6 identifier', 4, 2), ('icmpv6 sequence', 6, 2)]
    else:
        ty, rty = rng.choice([(8, 0), (13, 14), (17, 18)])
        lines += ['push ICMP', 'set %d type %d' % (k + 1, ty), 'set %d id %d' % (k + 1, icmp_id), 'set %d sequence %d' % (k + 1, icmp_seq)]
        inner = '[5 %d x%s x%s]' % (ty, h2(icmp_id), h2(icmp_seq))
        proto = 1
        reply_l4 = struct.pack('>BBHHH', rty, 0, 0, icmp_id, icmp_seq) + (payload if ty == 8 else bytes(12 if ty == 13 else 4))
        fields = [('icmp id', 4, 2), ('icmp sequence', 6, 2)]
    # most requests are "sent" (serialized: derived fields such as the IPv4 protocol are then set); some are matched as built --
    # the matched fields are all set by then, a reply must not be turned down because a derived field was never filled in
    sent = rng.random() < 0.7
    if sent:
        lines.append('ser')
    extra = []
    hsize = 20
    if not v6 and l2 == 'none' and l4 in ('UDP', 'ICMP') and rng.random() < 0.5:
        # the request carries IPv4 options (header longer than 20 bytes): built as bytes and parsed, since options are not scalar fields
        nopt = 4 * rng.randrange(1, 11)
        hsize = 20 + nopt
        if l4 == 'UDP':
            l4req = struct.pack('>HHHH', sport, dport, 8 + len(payload), 0) + payload
        else:
            l4req = struct.pack('>BBHHH', ty, 0, 0, icmp_id, icmp_seq) + (payload if ty == 8 else bytes(12 if ty == 13 else 4))
        reqb = struct.pack('>BBHHHBBH', 0x40 | (hsize // 4), 0, hsize + len(l4req), ident, 0, 64, proto, 0) + sa + da + bytes([1] * nopt) + l4req
        lines = ['parse IP x' + reqb.hex()]
    if v6:
        l3req = '[9 x%s x%s %s]' % (sa.hex(), da.hex(), inner)
        hl = 40
        reply_l3 = struct.pack('>IHBB', 6 << 28, len(reply_l4), proto, 64) + da + sa + reply_l4
        l3fields = [('ipv6 source', 8, 16), ('ipv6 destination', 24, 16)]
        # the mirrored reply behind one to three extension headers (hop-by-hop, destination options, routing), whole and cut at every
        # length from the end of the fixed header on (in front of, inside and right behind each extension header)
        chain = [0] + [rng.choice([60, 43, 60]) for _ in range(rng.randrange(0, 3))]
        ext = b''
        for j, t_ in enumerate(chain):
            nxt = chain[j + 1] if j + 1 < len(chain) else proto
            n8 = rng.choice([0, 0, 1])
            ext += bytes([nxt, n8]) + (bytes([1, 4 + 8 * n8]) + bytes(4 + 8 * n8) if t_ != 43 else bytes([0, 0]) + bytes(4 + 8 * n8))
        reply_ext = struct.pack('>IHBB', 6 << 28, len(ext) + len(reply_l4), 0, 64) + da + sa + ext + reply_l4
        extra.append(('mirrored reply behind %d extension headers' % len(chain), reply_ext, None))
        for cut in range(40, min(len(reply_ext), 40 + len(ext) + 3)):
            extra.append(('reply with extension headers cut to %d octets' % cut, reply_ext[:cut], None))
        if mcast == 2:
            l3fields = [('ipv6 destination', 24, 16)]      # a reply to ff02:: may come from anybody
    else:
        l3req = '[2 x%s x%s %d %d x%s %s]' % (sa.hex(), da.hex(), hsize, proto if (sent or lines[0].startswith('parse ')) else 0, h2(ident), inner)      # the object's protocol field is filled in by serialize()
        hl = 20
        reply_l3 = struct.pack('>BBHHHBBH', 0x45, 0, 20 + len(reply_l4), rng.randrange(65536), 0, 64, proto, 0) + da + sa + reply_l4
        l3fields = [('ip source', 12, 4), ('ip destination', 16, 4)]
        if bcast4:
            # the answer comes from whoever answers, addressed to the requester (to anybody when the requester had no address)
            rsrc = ip4(rng.randrange(1, 0xdfffffff))
            reply_l3 = reply_l3[:12] + rsrc + (sa if sip else ip4(rng.choice([0xffffffff, rng.randrange(1, 0xdfffffff)]))) + reply_l3[20:]
            l3fields = [('ip destination', 16, 4)] if sip else []
        # the mirrored reply may carry IPv4 options of its own (longer header than the request's), also cut inside them
        ropt = 4 * rng.randrange(1, 11)
        reply_opt = struct.pack('>BBHHHBBH', 0x40 | ((20 + ropt) // 4), 0, 20 + ropt + len(reply_l4), rng.randrange(65536), 0, 64, proto, 0) + da + sa + bytes([1] * ropt) + reply_l4
        extra.append(('mirrored reply with %d bytes of IPv4 options' % ropt, reply_opt, 1))
        for cut in sorted(set([20, 21, 20 + ropt - 1, 20 + ropt, 20 + ropt + 1, 20 + ropt + 7, 20 + ropt + 8])):
            if 20 <= cut < len(reply_opt):
                extra.append(('reply with IPv4 options truncated to %d bytes' % cut, reply_opt[:cut], None))
        # ICMP destination unreachable from a router on the path: quoting OUR datagram / quoting somebody else's
        # (the quoted protocol is compared with the request's own protocol field, which is derived on serialization: sent requests only)
        router = ip4(rng.randrange(1, 0xdfffffff))
        quoted = struct.pack('>BBHHHBBH', 0x45, 0, 20 + 8, ident, 0, 3, proto, 0x1234) + sa + da + bytes(rng.randrange(256) for _ in range(8))
        def unreach(q):
            body = struct.pack('>BBHI', 3, rng.randrange(16), 0, 0) + q
            return struct.pack('>BBHHHBBH', 0x45, 0, 20 + len(body), rng.randrange(65536), 0, 64, 1, 0) + router + sa + body
        extra.append(('destination-unreachable quoting the request', unreach(quoted), 1 if sent else None))
        for nm, off, ln in (('source', 12, 4), ('destination', 16, 4), ('identifier', 4, 2), ('protocol', 9, 1)):
            q = bytearray(quoted)
            q[off + rng.randrange(ln)] ^= 1 << rng.randrange(8)
            extra.append(('destination-unreachable from a third party quoting a datagram with another ' + nm, unreach(bytes(q)), 0 if sent else None))
    if l4 in ('UDP', 'UDPDNS'):
        # mirrored ports with a UDP length field smaller than the header, the buffer ending at or right behind the UDP header
        for ulen in (0, 1, 7, 8):
            for tail in (0, 1, 2):
                u = struct.pack('>HHHH', dport, sport, ulen, 0) + bytes(rng.randrange(256) for _ in range(tail))
                if v6:
                    r3 = struct.pack('>IHBB', 6 << 28, len(u), 17, 64) + da + sa + u
                else:
                    r3 = struct.pack('>BBHHHBBH', 0x45, 0, 20 + len(u), rng.randrange(65536), 0, 64, 17, 0) + da + sa + u
                extra.append(('reply whose UDP length field is %d, %d bytes behind the UDP header' % (ulen, tail), r3, None))
    if l2 == 'none':
        req, reply, base = l3req, reply_l3, 0
        matched = []
    elif l2 == 'eth':
        req = '[1 x%s x%s %s]' % (mac(src_mac).hex(), mac(dst_mac).hex(), l3req)
        pre = mac(src_mac) + mac(dst_mac) + (b'\x86\xdd' if v6 else b'\x08\x00')
        reply, base = pre + reply_l3, 14
        matched = [('ethernet destination', 0, 6), ('ethernet source', 6, 6)]
        extra = [(w, pre + r, e) for (w, r, e) in extra]
    else:
        req = '[1 x%s x%s [8 %d %s]]' % (mac(src_mac).hex(), mac(dst_mac).hex(), vid, l3req)
        pre = mac(src_mac) + mac(dst_mac) + b'\x81\x00' + struct.pack('>H', (rng.randrange(16) << 12) | vid) + (b'\x86\xdd' if v6 else b'\x08\x00')
        reply, base = pre + reply_l3, 18
        matched = [('ethernet destination', 0, 6), ('ethernet source', 6, 6), ('vlan id', 14, 2, 0x0fff)]
        extra = [(w, pre + r, e) for (w, r, e) in extra]
    matched += [(n, base + hl + o, ln) for n, o, ln in fields] + [(n, base + o, ln) for n, o, ln in l3fields]
    return lines, req, reply, matched, extra


def run(ctx):
    st, acc = PC.prepare(ctx, ('gen_accessors',))
    ctx.cov['trusted_base'] += ['Model/Match.v hand-written (EthernetII, Dot1Q, IP, IPv6 incl. extension-header walk, UDP, TCP, ICMP, ICMPv6, DNS, RawPDU), tied by correspondence; other matchers explored only',
                                'reply buffers are exact-size heap blocks (ASan redzone right behind them) in harness/h_pkt.cpp',
                                'extraction: ExtrOcamlBasic only']
    ok, why = C.prove(ctx, 'C14')
    runner_ok = True
    try:
        C.build_runner()
    except C.BuildError as e:
        runner_ok = False; ok = False; why = (why + '\n' + str(e)).strip()
    rng = ctx.rng
    quick = ctx.tier == 'quick'
    hs, ms, expect = [], [], {}
    n = 0
    for i in range(500 if quick else 8000):
        lines, req, reply, matched, extra = gen(rng, i)
        cases = [('mirror', reply, 1, None)] + [(w, r, e, None) for (w, r, e) in extra]
        for fld in matched:
            name, off, ln = fld[:3]
            mask = fld[3] if len(fld) > 3 else (1 << (8 * ln)) - 1
            bit = rng.choice([i for i in range(8 * ln) if mask >> i & 1])
            b = bytearray(reply)
            b[off + ln - 1 - bit // 8] ^= 1 << (bit % 8)
            cases.append(('perturbed ' + name, bytes(b), 0, name))
        for k in sorted(set([0, 1, 2, 3, 4, 7, 8, 13, 14, 17, 18, 19, 20, 21, 27, 28, 33, 34, 39, 40, 41, 47, 48, 53, 54, 57, 58, 61, 62, len(reply) - 1])):
            if 0 <= k < len(reply):
                cases.append(('truncated to %d' % k, reply[:k], None, None))
        for (what, b, exp, name) in cases:
            sid = 'm%d' % n
            n += 1
            hs.append((sid, lines + ['match x' + b.hex()]))
            ms.append((sid, ['match %s x%s' % (req, b.hex())]))
            expect[sid] = (what, exp)
    # every layer class against short buffers
    shorts = []
    for cls in acc['default_constructible']:
        for ln in (0, 1, 2, 3, 4, 5, 7, 8, 12, 20, 40, 128):
            sid = 's%d' % n
            n += 1
            b = bytes(rng.randrange(256) for _ in range(ln))
            shorts.append((sid, ['new ' + cls, 'match x' + b.hex()]))
    h = C.run_harness('h_pkt', hs + shorts)
    m = C.run_model('match', ms) if runner_ok else {}
    ctx.cov['evaluations'] += len(hs) + len(shorts)
    nontriv = set()
    seen, reported = set(), 0
    for sid, lines in hs + shorts:
        lh = [l for l in h.get(sid, []) if not l.startswith('!~')]
        crash = [l for l in lh if l.startswith('!!')]
        last = lh[-1] if lh else ''
        bad = None
        has_input = True
        if crash:
            bad = 'matches_response: %s' % crash[0]
        elif sid in expect:
            what, exp = expect[sid]
            got = last.split()[1] if last.startswith('R ') else last
            if exp is not None and got != str(exp):
                bad = '%s reply: matches_response returned %s, expected %d' % (what, got, exp)
            lm = m.get(sid, ['?'])[0] if runner_ok else got
            if bad is None and runner_ok and lm != got:
                bad = 'correspondence Model.Match <-> C++ broken on a %s reply: model %s vs C++ %s' % (what, lm, got)
                has_input = False
            if exp is not None:
                nontriv.add(lines[-1])
        if bad:
            key = re.sub(r'\d+', 'N', bad)[:60]
            if key in seen or reported >= 5:
                continue
            seen.add(key); reported += 1
            ctx.violation(bad, '=== replay\n' + '\n'.join(lines) + '\n--- ' + bad + '\n--- C++ output\n' + '\n'.join(l[:200] for l in lh[-2:]) + '\n', has_input=has_input)
    ctx.cov['distinct_nontrivial'] = len(nontriv)
    ctx.cov['traces_validated_against_impl'] = len(ms) if runner_ok else 0
    ctx.cov['rule'] = ('requests {none, EthernetII, EthernetII/802.1Q} / {IPv4, IPv6} / {UDP+payload, UDP+DNS, TCP, ICMP echo|timestamp|address-mask, ICMPv6 echo} with random field values built through the API and serialised; replies built independently: '
                       'the mirrored reply must match, every single-bit perturbation of a matched field (addresses, VLAN id, ports, ICMP/ICMPv6 id/sequence, DNS id) must not, an ICMP destination-unreachable quoting the request must match and one quoting a datagram that differs in source, destination, identifier or protocol must not, truncations at every layer '
                       'boundary and every layer class against buffers of length 0..128 must stay inside the buffer; model and code compared on all of them; non-trivial = distinct reply with an expectation')
    ctx.cov['samples'] = [hs[0][1], ms[0][1]]
    C.obligations_failed(ctx, ok, why, 'theorems of Properties/C14.v no longer check')


def replay(ctx, path):
    C.build_harness('h_pkt')
    lines = C.read_replay(path)
    print('\n'.join(l[:200] for l in C.run_harness('h_pkt', [('r', lines)]).get('r', [])))
    return ctx.finish()
