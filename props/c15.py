"""C15 — header field accessors are exact inverses and do not disturb neighbouring fields."""
import json, os, re
import common as C

# independent wire specification (protocol documents): class -> field -> (bit offset from the start of the layer's
# header, width) MSB-first, and the byte positions of fields libtins derives when serialising
SPEC = {
    'EthernetII': ({'dst_addr': (0, 48), 'src_addr': (48, 48)}, [12, 13]),     # payload_type is a derived next-protocol tag
    'IP': ({'version': (0, 4), 'head_len': (4, 4), 'tos': (8, 8), 'id': (32, 16), 'fragment_offset': (51, 13), 'flags': (48, 3),
            'ttl': (64, 8), 'src_addr': (96, 32), 'dst_addr': (128, 32)}, [2, 3, 9, 10, 11, 0]),      # protocol is derived
    'TCP': ({'sport': (0, 16), 'dport': (16, 16), 'seq': (32, 32), 'ack_seq': (64, 32), 'data_offset': (96, 4), 'window': (112, 16), 'urg_ptr': (144, 16)}, [16, 17, 12]),
    'UDP': ({'sport': (0, 16), 'dport': (16, 16)}, [4, 5, 6, 7]),
    'ICMP': ({'type': (0, 8), 'code': (8, 8), 'id': (32, 16), 'sequence': (48, 16), 'mtu': (48, 16), 'pointer': (32, 8)}, [2, 3]),
    'ARP': ({'hw_addr_format': (0, 16), 'prot_addr_format': (16, 16), 'hw_addr_length': (32, 8), 'prot_addr_length': (40, 8), 'opcode': (48, 16),
             'sender_hw_addr': (64, 48), 'sender_ip_addr': (112, 32), 'target_hw_addr': (144, 48), 'target_ip_addr': (192, 32)}, []),
    'Dot1Q': ({'priority': (0, 3), 'cfi': (3, 1), 'id': (4, 12)}, [2, 3]),
    'IPv6': ({'version': (0, 4), 'traffic_class': (4, 8), 'flow_label': (12, 20), 'hop_limit': (56, 8), 'src_addr': (64, 128), 'dst_addr': (192, 128)}, [4, 5, 6]),
    'MPLS': ({'label': (0, 20), 'experimental': (20, 3), 'bottom_of_stack': (23, 1), 'ttl': (24, 8)}, []),
    'VXLAN': ({'vni': (32, 24)}, []),
    'SLL': ({'packet_type': (0, 16), 'lladdr_type': (16, 16), 'lladdr_len': (32, 16), 'protocol': (112, 16)}, []),
    'UDP_': ({}, []),
    # RFC 1035 section 4.1.1 (AD / CD: RFC 2535 section 6.1): bits counted from the most significant bit of the header
    'DNS': ({'id': (0, 16), 'opcode': (17, 4), 'authoritative_answer': (21, 1), 'truncated': (22, 1), 'recursion_desired': (23, 1),
             'recursion_available': (24, 1), 'z': (25, 1), 'authenticated_data': (26, 1), 'checking_disabled': (27, 1), 'rcode': (28, 4)}, []),
    'BootP': ({'opcode': (0, 8), 'htype': (8, 8), 'hlen': (16, 8), 'hops': (24, 8), 'xid': (32, 32), 'secs': (64, 16), 'padding': (80, 16),
               'ciaddr': (96, 32), 'yiaddr': (128, 32), 'siaddr': (160, 32), 'giaddr': (192, 32)}, []),
    'SNAP': ({'dsap': (0, 8), 'ssap': (8, 8), 'control': (16, 8), 'org_code': (24, 24)}, [6, 7]),
    'PPPoE': ({'version': (0, 4), 'type': (4, 4), 'code': (8, 8), 'session_id': (16, 16)}, [4, 5]),
    'IPSecAH': ({'spi': (32, 32), 'seq_number': (64, 32)}, [0, 1]),
    'IPSecESP': ({'spi': (0, 32), 'seq_number': (32, 32)}, []),
    'RTP': ({'version': (0, 2), 'padding_bit': (2, 1), 'extension_bit': (3, 1), 'csrc_count': (4, 4), 'marker_bit': (8, 1), 'payload_type': (9, 7),
             'sequence_number': (16, 16), 'timestamp': (32, 32), 'ssrc_id': (64, 32)}, []),
    'ICMPv6': ({'type': (0, 8), 'code': (8, 8)}, [2, 3, 4]),       # octet 4 is the derived RFC 4884 length attribute for types 1 and 3
}
SPEC['TCP'][0]['flags'] = (100, 12)
SPEC['DHCP'] = SPEC['BootP']
# IEEE 802.11 frame control (first octet: protocol version in the two LEAST significant bits, then type, then subtype; second octet:
# to DS, from DS, more fragments, retry, power management, more data, protected, order from the least significant bit), for every class
# of the Dot11 family; the address-4 flags pair changes the header length and is skipped by the equal-length guard
DOT11_FC = {'subtype': (0, 4), 'type': (4, 2), 'protocol': (6, 2), 'order': (8, 1), 'wep': (9, 1), 'more_data': (10, 1), 'power_mgmt': (11, 1),
            'retry': (12, 1), 'more_frag': (13, 1), 'from_ds': (14, 1), 'to_ds': (15, 1)}
for _c in ('Dot11Data', 'Dot11QoSData', 'Dot11Beacon', 'Dot11ProbeRequest', 'Dot11ProbeResponse', 'Dot11AssocRequest', 'Dot11AssocResponse',
           'Dot11ReAssocRequest', 'Dot11ReAssocResponse', 'Dot11Authentication', 'Dot11Deauthentication', 'Dot11Disassoc', 'Dot11Ack', 'Dot11RTS',
           'Dot11CFEnd', 'Dot11EndCFAck', 'Dot11PSPoll', 'Dot11BlockAck', 'Dot11BlockAckRequest'):
    SPEC[_c] = (dict(DOT11_FC), [])
# message types whose header re-uses the bytes of id/sequence for a derived RFC 4884 length (the field under test does not
# exist in such a message); they are not drawn as PRIOR state.  (False alarm seen with VERIF_SEED=1, corrected here.)
UNION_DISCRIMINATOR = {('ICMP', 'type', 3), ('ICMP', 'type', 11), ('ICMP', 'type', 12), ('ICMPv6', 'type', 1), ('ICMPv6', 'type', 3)}
KINDS = {1: 'int', 2: 'enum', 3: 'small', 4: 'v4', 5: 'v6', 6: 'hw'}


HAMMING_EXEMPT = set()


def parse_view(line):
    """'P Class a=1 b=x.. | Class2 ...' -> list of (class, {field: value})"""
    if not line.startswith('P ') and not line.startswith('Q '):
        return None
    layers = []
    for part in line[2:].split(' | '):
        toks = part.split(' ')
        d = {}
        for t in toks[1:]:
            if '=' in t:
                k, v = t.split('=', 1)
                d[k] = v
        layers.append((toks[0], d))
    return layers


def value_string(kind, bits, v):
    if kind in (1, 2, 3):
        return str(v & ((1 << bits) - 1)) if kind != 3 else str(v)
    if kind == 4:
        return 'x%08x' % (v & 0xffffffff)
    if kind == 6:
        n = bits // 8
        return 'x' + bytes((v >> (8 * ((n - 1 - i) % 8))) & 0xff for i in range(n)).hex()
    if kind == 5:
        return 'x' + bytes(((v >> (8 * (i % 8))) + i) & 0xff for i in range(16)).hex()
    return None


def wire_value(kind, bits, v):
    """the integer whose big-endian bits must appear in the field"""
    if kind in (1, 2, 3):
        return v & ((1 << bits) - 1)
    if kind == 4:
        return v & 0xffffffff
    if kind == 6:
        n = bits // 8
        return int.from_bytes(bytes((v >> (8 * ((n - 1 - i) % 8))) & 0xff for i in range(n)), 'big')
    if kind == 5:
        return int.from_bytes(bytes(((v >> (8 * (i % 8))) + i) & 0xff for i in range(16)), 'big')


def load_fields():
    out = C.run_harness('h_pkt', [('f', ['fields'])]).get('f', [])
    fields = []
    for l in out:
        t = l.split()
        if len(t) == 4 and t[2].isdigit():
            fields.append((t[0], t[1], int(t[2]), int(t[3])))
    return fields


def values_for(rng, kind, bits, quick):
    if kind in (1, 2, 3):
        mx = (1 << bits) - 1
        base = {0, 1, mx, mx - 1 if mx else 0, mx >> 1, (mx >> 1) + 1}
        for i in range(bits):
            base.add(1 << i)
        if bits <= 16 and not quick:
            return sorted(range(mx + 1))[:65536] if bits <= 12 else sorted(base | set(rng.randrange(mx + 1) for _ in range(600)))
        return sorted(base | set(rng.randrange(mx + 1) for _ in range(6 if quick else 40)))
    return [rng.randrange(1 << 62) for _ in range(3 if quick else 12)] + [0, (1 << 64) - 1]


def run(ctx):
    st = C.run_translators(('gen_accessors', 'gen_layouts'))
    ctx.notes['translators'] = st
    ctx.cov['trusted_base'] += ['translate/gen_layouts.py (clang -fdump-record-layouts, x86-64) and translate/gen_accessors.py (clang JSON AST of every PDU class) regenerated each run',
                                'the compiler places bit-fields from the least significant bit and stores integers little-endian (x86-64 ABI) — the meaning of Model/Fields.v',
                                'harness/h_pkt.cpp + generated build/accessors_gen.h; the wire table SPEC in props/c15.py is a reading of the protocol documents']
    ok, why = C.prove(ctx, 'C15')
    C.build_harness('h_pkt', extra_src=[os.path.join(C.BUILD, 'accessors_gen.h')])
    rng = ctx.rng
    quick = ctx.tier == 'quick'
    acc = json.load(open(os.path.join(C.BUILD, 'accessors.json')))
    dflt = set(acc['default_constructible'])
    fields = [f for f in load_fields() if f[0] in dflt]
    # header fields only: option-backed "fields" (getter throws on a fresh object, setter appends an option) belong to C04
    init = C.run_harness('h_pkt', [('i_' + c, ['new ' + c]) for c in sorted(set(f[0] for f in fields))])
    header_field = set()
    for sid, o in init.items():
        pv = parse_view(o[0]) if o else None
        if pv:
            for k, val in pv[0][1].items():
                if not val.startswith('!'):
                    header_field.add((pv[0][0], k))
    scalar = [f for f in fields if f[2] in KINDS and (f[0], f[1]) in header_field]
    by_class = {}
    for f in scalar:
        by_class.setdefault(f[0], []).append(f)
    known, _ = C.load_known('C15')
    known_trunc = set()
    for k in known:
        if k['key'] == 'trunc':
            known_trunc |= set(re.findall(r'([A-Za-z0-9]+\.[a-z_0-9]+)', k['text']))
    scripts = []
    meta = {}
    n = 0
    for (cls, fld, kind, bits) in scalar:
        vals = values_for(rng, kind, bits, quick)
        if kind == 2:
            vals = [v for v in vals if v < 4] or [0, 1]     # enums: stay inside every enumeration's value range
        # narrow fields (few values): every value with and without something carried below the layer; wider ones: one or the other
        for v, carry in [(v_, c_) for v_ in vals for c_ in ((False, True) if bits <= 4 else (rng.random() < 0.5,))]:
            lines = ['new ' + cls]
            others = [o for o in by_class[cls] if o[1] != fld and o[2] in (1, 2, 3, 4, 6)]
            for o in rng.sample(others, min(len(others), 5)):
                ov = rng.randrange(1 << min(o[3], 62)) if o[2] in (1, 3) else (rng.randrange(4) if o[2] == 2 else rng.randrange(1 << 62))
                if (cls, o[1], ov) in UNION_DISCRIMINATOR:
                    continue
                lines.append('set 0 %s %d' % (o[1], ov))
            comp = (~v) & ((1 << min(bits, 64)) - 1) if kind in (1, 3) else ((v + 1) % 4 if kind == 2 else v ^ 0x5a5a5a5a5a5a5a5a)
            if carry:
                lines.append('raw x' + bytes(rng.randrange(256) for _ in range(rng.choice([1, 4, 20]))).hex())      # the layer carries something
            lines += ['ser', 'view', 'set 0 %s %d' % (fld, comp), 'set 0 %s %d' % (fld, v), 'ser', 'view']
            sid = 's%d' % n
            n += 1
            scripts.append((sid, lines))
            meta[sid] = (cls, fld, kind, bits, v)
        # over-range values for sub-byte / odd-width fields
        if kind == 3 and bits < 64:
            for v in sorted(set(x for x in (1 << bits, (1 << bits) + 1, (1 << (8 * ((bits + 7) // 8))) - 1) if x >= (1 << bits))):
                sid = 'o%d' % n
                n += 1
                scripts.append((sid, ['new ' + cls, 'view', 'set 0 %s %d' % (fld, v)]))
                meta[sid] = (cls, fld, kind, bits, v)
    out = C.run_harness('h_pkt', scripts)
    ctx.cov['evaluations'] = len(scripts)
    changes = {}        # (cls, f) -> set of g that changed
    viol = []
    trunc_seen = set()
    nontriv = set()
    hdr_struct = {}
    for sid, lines in scripts:
        cls, fld, kind, bits, v = meta[sid]
        o = [l for l in out.get(sid, []) if not l.startswith('!~')]
        crashes = [l for l in o if l.startswith('!!')]
        if crashes:
            viol.append((True, '%s.%s(%d): %s' % (cls, fld, v, crashes[0]), lines))
            continue
        if sid.startswith('o'):
            # over-range must be rejected with an error instead of being truncated
            last = o[-1] if o else ''
            if last.startswith('E'):
                continue
            viol.append((True, '%s.%s: value %d does not fit the %d-bit field but was accepted (silent truncation)' % (cls, fld, v, bits), lines))
            continue
        try:
            i_view = lines.index('view')
            ser1 = o[i_view - 1]
            before = parse_view(o[i_view])
            mid = parse_view(o[i_view + 1])
            after = parse_view(o[i_view + 2])
            ser2 = o[i_view + 3]
        except Exception:
            # a setter may legitimately throw for enum-typed fields; anything else is reported
            if any(l.startswith('E') for l in o) and kind == 2:
                continue
            viol.append((True, '%s.%s(%d): unexpected output %s' % (cls, fld, v, o[-2:]), lines))
            continue
        if before is None or after is None:
            if kind == 2:
                continue
            viol.append((True, '%s.%s(%d): setter failed: %s' % (cls, fld, v, o[i_view + 1] if len(o) > i_view + 1 else o), lines))
            continue
        b0, a0 = before[0][1], after[0][1]
        exp = value_string(kind, bits, v)
        got = a0.get(fld)
        # the value is still there after serialize() (fields of the independent wire table: none of them is derived)
        fin = parse_view(o[i_view + 4]) if len(o) > i_view + 4 else None
        def _derived(c_, f_):
            o_, w_ = SPEC[c_][0][f_]
            return any(d_ in SPEC[c_][1] for d_ in range(o_ // 8, (o_ + w_ + 7) // 8))
        if fin and cls in SPEC and fld in SPEC[cls][0] and not _derived(cls, fld) and not (cls == 'IP' and fld == 'src_addr' and wire_value(kind, bits, v) == 0) \
                and got == exp and fin[0][1].get(fld) != got:
            viol.append((True, '%s.%s: set %s, the getter returns %s after serialize()' % (cls, fld, exp, fin[0][1].get(fld)), lines))
        nontriv.add((cls, fld))
        if kind in (1, 2) and got is not None and exp is not None and got != exp:
            key = '%s.%s' % (cls, fld)
            if key in known_trunc:
                trunc_seen.add(key)      # recorded finding: silent truncation by a plain-integer setter
            else:
                viol.append((True, '%s.%s: set %d, getter returns %s' % (cls, fld, v, got), lines))
        elif got != exp and kind not in (1, 2):
            viol.append((True, '%s.%s: set %s, getter returns %s' % (cls, fld, exp, got), lines))
        m0 = mid[0][1] if mid else a0
        for g, val in b0.items():
            if g != fld and (a0.get(g) != val or m0.get(g) != val):
                changes.setdefault((cls, fld), set()).add(g)
        # fields outside the independent table: a field is some set of wire bits, so going from the old value to the new one may change
        # at most as many bits of the serialization as differ between the two values (classes whose serialization computes other
        # octets from the contents - checksums, lengths - are listed in SPEC with those octets marked, and are judged there)
        if not (cls in SPEC and fld in SPEC[cls][0]) and cls not in HAMMING_EXEMPT and (cls, fld) not in HAMMING_EXEMPT and kind in (1, 3) and got == exp \
                and ser1.startswith('S ') and ser2.startswith('S ') and re.fullmatch(r'\d+', b0.get(fld, '') or ''):
            y1 = bytes.fromhex(ser1.split()[2][1:]); y2 = bytes.fromhex(ser2.split()[2][1:])
            if len(y1) == len(y2):
                drv = SPEC[cls][1] if cls in SPEC else []
                hd = sum(bin(p_ ^ q_).count('1') for i_, (p_, q_) in enumerate(zip(y1, y2)) if i_ not in drv)
                lim = bin(int(b0[fld]) ^ (v & ((1 << bits) - 1))).count('1')
                if hd > lim:
                    viol.append((True, '%s.%s: going from %s to %d changes %d bits of the serialization, more than the %d bits in which the two values differ: %s -> %s'
                                 % (cls, fld, b0[fld], v, hd, lim, y1.hex(), y2.hex()), lines))
        # wire check against the independent table
        if cls in SPEC and fld in SPEC[cls][0] and ser1.startswith('S ') and ser2.startswith('S ') and got == exp and not (cls == 'IP' and fld == 'src_addr' and wire_value(kind, bits, v) == 0):
            off, w = SPEC[cls][0][fld]
            derived = SPEC[cls][1]
            y1 = bytearray(bytes.fromhex(ser1.split()[2][1:]))
            y2 = bytearray(bytes.fromhex(ser2.split()[2][1:]))
            # (a setter whose parameter type is wider than the field, e.g. the one-bit DNS flags taking uint8_t, is checked with the values that fit)
            if len(y1) == len(y2) and (w == bits or (w < bits and 0 <= wire_value(kind, bits, v) < (1 << w))):
                exp_img = int.from_bytes(y1, 'big')
                tot = len(y1) * 8
                mask = ((1 << w) - 1) << (tot - off - w)
                exp_img = (exp_img & ~mask) | (wire_value(kind, bits, v) << (tot - off - w))
                e2 = bytearray(exp_img.to_bytes(len(y1), 'big'))
                for d in derived:
                    if d < len(e2):
                        e2[d] = y2[d]
                if e2 != y2:
                    viol.append((True, '%s.%s=%d: serialization differs from the specified position (bit %d, %d bits, network order): got %s expected %s'
                                 % (cls, fld, v, off, w, y2.hex(), e2.hex()), lines))
    # frame: f changes g although g never changes f (g settable and swept)
    swept = set((c, f) for (c, f, k, b) in scalar)
    for (cls, f), gs in changes.items():
        for g in gs:
            if (cls, g) in swept and f not in changes.get((cls, g), set()):
                rep = next((l for sid, l in scripts if meta[sid][0] == cls and meta[sid][1] == f), None)
                viol.append((True, '%s: setting %s changes the value returned by %s, a field whose own setter does not touch %s (neighbouring field disturbed)' % (cls, f, g, f), rep or []))
    # struct-valued HEADER fields (e.g. the STP bridge identifiers): the getter must return what was set, and the value must
    # survive the wire.  Option-backed typed values belong to C04; a field is header-backed when its getter works on a fresh object.
    import c04 as R4
    styped = [(c, f) for (c, f, k, b) in fields if k in (7, 9) and (c, f) in header_field and c not in R4.PREP and (c, f) not in R4.PREP]
    ts = []
    for (cls, fld) in styped:
        for v in list(range(0, 16)) + [rng.randrange(1 << 64) for _ in range(16 if quick else 300)]:
            ts.append(('z%d' % len(ts), ['new ' + cls, 'val 0 %s %d' % (fld, v), 'set 0 %s %d' % (fld, v), 'ser', 'rt ' + cls]))
    th = C.run_harness('h_pkt', ts)
    ctx.cov['evaluations'] += len(ts)
    for sid, lines in ts:
        lh = [l for l in th.get(sid, []) if not l.startswith('!~')]
        cls, fld = lines[0].split()[1], lines[1].split()[2]
        cat, bad = R4.typed_verdict(cls, fld, lines, lh, 1)
        if cat is not None:
            viol.append((True, bad, lines))
        elif bad is None:
            nontriv.add((cls, fld))
    ctx.notes['struct_valued_header_fields'] = ['%s.%s' % x for x in styped]
    for k in sorted(trunc_seen):
        pass
    if trunc_seen:
        ctx.known(next(k['text'] for k in known if k['key'] == 'trunc'))
    ctx.cov['distinct_nontrivial'] = len(nontriv)
    ctx.cov['traces_validated_against_impl'] = len(scripts)
    ctx.cov['rule'] = ('every (class, field) setter/getter pair of every default-constructible PDU class found in the current headers (%d pairs, %d with scalar arguments): '
                       'random prior state, boundary + random values (widths <= 12 exhaustively in the thorough tier), over-range values for small_uint fields; '
                       'non-trivial = distinct (class, field) whose setter ran and was read back' % (len(fields), len(scalar)))
    ctx.cov['samples'] = [scripts[0][1], scripts[len(scripts) // 2][1]]
    ctx.notes['aliasing_groups_observed'] = {'%s.%s' % k: sorted(v) for k, v in list(changes.items())[:40]}
    seen = set()
    for has_input, text, lines in viol:
        key = re.sub(r'\d+', 'N', text)[:70]
        if key in seen or len(seen) >= 6:
            continue
        seen.add(key)
        ctx.violation(text, '=== replay\n' + '\n'.join(lines) + '\n--- complaint\n' + text + '\n', has_input=has_input)
    ctx.notes['violations_total'] = len(viol)
    ctx.notes['violation_kinds'] = sorted(set(re.sub(r'(set |=|value )\d+', r'\1N', t)[:110] for _, t, _ in viol))[:80]
    tr_ok = all(v.get('ok') for v in st.values() if isinstance(v, dict))
    C.obligations_failed(ctx, ok and tr_ok, why + json.dumps(st)[:800], 'theorems of Properties/C15.v / generated layouts no longer check')


def replay(ctx, path):
    C.build_harness('h_pkt')
    lines = C.read_replay(path)
    print('\n'.join(C.run_harness('h_pkt', [('r', lines)]).get('r', [])))
    return ctx.finish()
