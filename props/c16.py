"""C16 — address types: text round-trip, ordering and range arithmetic are exact."""
import re
import common as C

M32 = 1 << 32
EDGE4 = [0, 1, 2, 3, 4, 254, 255, 256, 257, 0x7fffffff, 0x80000000, 0xc0a80000, 0xc0a800ff, 0xc0a80100, 0xfffffffc, 0xfffffffd, 0xfffffffe, 0xffffffff]


def H(s):
    return 'x' + s.encode('latin1').hex()


def v4str(a):
    return '%d.%d.%d.%d' % (a >> 24, (a >> 16) & 255, (a >> 8) & 255, a & 255)


def rnd4(rng):
    return rng.choice(EDGE4) if rng.random() < 0.5 else rng.randrange(M32)


def near_valid_v4(rng):
    a = rnd4(rng)
    s = v4str(a)
    r = rng.random()
    if r < 0.4:
        return s
    muts = [lambda s: s + '.', lambda s: '.' + s, lambda s: s.replace('.', '..', 1), lambda s: s + ' ', lambda s: ' ' + s,
            lambda s: s.rsplit('.', 1)[0], lambda s: s + '.1', lambda s: '0' + s, lambda s: s.replace('.', '.0', 1),
            lambda s: s.replace('.', ',', 1), lambda s: '256' + s[s.index('.'):], lambda s: '1' + s, lambda s: s + 'a',
            lambda s: s.replace('.', '.-', 1), lambda s: '0x1' + s[s.index('.'):], lambda s: '', lambda s: s + '\x00x'.replace('\x00', ''),
            lambda s: '999' + s[s.index('.'):], lambda s: '00' + s[s.index('.'):], lambda s: s[:-1] if len(s) > 1 else s]
    return rng.choice(muts)(s)


def ref_v4(s):
    m = re.fullmatch(r'(0|[1-9]\d{0,2})\.(0|[1-9]\d{0,2})\.(0|[1-9]\d{0,2})\.(0|[1-9]\d{0,2})', s)
    if not m:
        return None
    p = [int(x) for x in m.groups()]
    if any(x > 255 for x in p):
        return None
    return (p[0] << 24) | (p[1] << 16) | (p[2] << 8) | p[3]


def rndbuf(rng, n):
    r = rng.random()
    if r < 0.25:
        b = [255] * n
        for i in range(rng.randrange(0, 3)):
            b[-1 - i] = rng.choice([0, 1, 253, 254, 255])
        return bytes(b)
    if r < 0.5:
        b = [0] * n
        for i in range(rng.randrange(0, 3)):
            b[-1 - i] = rng.choice([0, 1, 2, 254, 255])
        return bytes(b)
    return bytes(rng.randrange(256) for _ in range(n))


def hwstr(b):
    return ':'.join('%02x' % x for x in b)


def near_valid_hw(rng):
    b = rndbuf(rng, 6)
    s = hwstr(b)
    r = rng.random()
    if r < 0.35:
        return s
    muts = [lambda s: s.upper(), lambda s: s + ':', lambda s: s + ':66', lambda s: s + ':66:zz', lambda s: s[:-1], lambda s: s[:8],
            lambda s: s.replace(':', '::', 1), lambda s: s.replace(':', '-', 1), lambda s: 'g' + s[1:], lambda s: s + 'z', lambda s: ':' + s,
            lambda s: ':'.join('%x' % int(x, 16) for x in s.split(':')), lambda s: s.replace(':', '', 1), lambda s: '', lambda s: '::',
            lambda s: s[:2], lambda s: s + ' ', lambda s: '0' + s, lambda s: s[:15] + '5']
    return rng.choice(muts)(s)


def ref_hw(s):
    """1..6 groups of one or two hex digits separated by single colons (short forms are documented); value zero-padded"""
    if not re.fullmatch(r'[0-9a-fA-F]{1,2}(:[0-9a-fA-F]{1,2}){0,5}', s):
        return None
    g = [int(x, 16) for x in s.split(':')]
    return bytes(g + [0] * (6 - len(g)))


def gen(rng, sid):
    lines = []
    for _ in range(rng.randrange(4, 12)):
        k = rng.randrange(13)
        if k == 0:
            lines.append('v4p ' + H(near_valid_v4(rng)))
        elif k == 1:
            lines.append('v4s %d' % rnd4(rng))
        elif k == 2:
            a = rnd4(rng)
            lines.append('v4cmp %d %d' % (a, rng.choice([a, (a + 1) % M32, (a - 1) % M32, rnd4(rng), a ^ 0x01000000])))
        elif k == 3:
            lines.append('v4ops %d %d' % (rnd4(rng), rnd4(rng)))
        elif k == 4:
            a = rnd4(rng)
            p = rng.choice([0, 1, 7, 8, 9, 16, 23, 24, 25, 30, 31, 32, rng.randrange(33)])
            size = 1 << (32 - p)
            first = a & ~(size - 1) & 0xffffffff
            x = rng.choice([first, (first - 1) % M32, first + size - 1, (first + size) % M32, (first + 1) % M32, rnd4(rng)])
            lines.append('v4rng %d %d %d' % (a, p, x))
        elif k == 5:
            f = rnd4(rng)
            n = rng.choice([0, 1, 2, 3, 5, 17, 255, 256, 1000])
            l = min(f + n, M32 - 1)
            if rng.random() < 0.15:
                f, l = rng.choice([(0, M32 - 1), (1, M32 - 1), (0, M32 - 2), (M32 - 1, M32 - 1), (0, 0)])
            hosts = rng.randrange(2)
            lim = rng.choice([3, 2000])
            lines.append('v4it %d %d %d %d' % (f, l, hosts, lim))
        elif k == 6:
            lines.append('hwp ' + H(near_valid_hw(rng)))
        elif k == 7:
            lines.append('hws x' + rndbuf(rng, 6).hex())
        elif k in (8, 9):
            n = rng.choice([6, 16])
            a = rndbuf(rng, n)
            b = rng.choice([a, rndbuf(rng, n), bytes(a[:-1]) + bytes([(a[-1] + 1) % 256]), bytes([(a[0] + 1) % 256]) + bytes(a[1:])])
            lines.append('bufcmp x%s x%s' % (a.hex(), b.hex()))
        elif k == 10:
            n = rng.choice([6, 16])
            a = rndbuf(rng, n)
            p = rng.choice([0, 1, 7, 8, 9, 8 * n - 9, 8 * n - 8, 8 * n - 2, 8 * n - 1, 8 * n, rng.randrange(8 * n + 1)])
            av = int.from_bytes(a, 'big')
            size = 1 << (8 * n - p)
            first = av & ~(size - 1)
            xv = rng.choice([first, (first - 1) % (1 << 8 * n), first + size - 1, (first + size) % (1 << 8 * n), int.from_bytes(rndbuf(rng, n), 'big')])
            lines.append('bufrng x%s %d x%s' % (a.hex(), p, xv.to_bytes(n, 'big').hex()))
        else:
            n = rng.choice([6, 16])
            f = int.from_bytes(rndbuf(rng, n), 'big')
            cnt = rng.choice([0, 1, 2, 3, 5, 255, 256, 700])
            if rng.random() < 0.6:
                # start just below a carry out of the j low octets (j = 1 .. n-1: every octet boundary, the 2^64 boundary of an
                # IPv6 address, the carry into the first octet), so that iteration crosses it
                j = rng.randrange(1, n)
                hi = rng.randrange(0, (1 << 8 * (n - j)) - 1)
                f = (hi << 8 * j) | ((1 << 8 * j) - 1 - rng.choice([0, 0, 1, 3]))
                cnt = rng.choice([2, 5, 9, 300])
            l = min(f + cnt, (1 << 8 * n) - 1)
            hosts = rng.randrange(2)
            lines.append('bufit x%s x%s %d %d' % (f.to_bytes(n, 'big').hex(), l.to_bytes(n, 'big').hex(), hosts, rng.choice([3, 2000])))
    return (sid, lines)


def gen_v6text(rng, sid):
    lines = []
    for _ in range(8):
        b = rndbuf(rng, 16)
        if rng.random() < 0.3:
            b = bytes(10) + b'\xff\xff' + b[:4]
        if rng.random() < 0.3:
            b = b[:2] + bytes(rng.randrange(2, 12)) + b
            b = b[:16]
        lines.append('v6rt x' + b.hex())
    return (sid, lines)


def summ(vals, done, show):
    f3 = vals[:3]
    l3 = list(reversed(vals))[:3]
    return '%d [%s] [%s] %d' % (len(vals), ' '.join(show(v) for v in f3), ' '.join(show(v) for v in l3), 1 if done else 0)


def expect(line):
    """reference answer for one op, or None when the reference has nothing to say"""
    t = line.split()
    op = t[0]
    unx = lambda s: bytes.fromhex(s[1:])
    if op == 'v4p':
        r = ref_v4(unx(t[1]).decode('latin1'))
        return '0' if r is None else '1 %d' % r
    if op == 'v4s':
        return H(v4str(int(t[1])))
    if op == 'v4cmp':
        a, b = int(t[1]), int(t[2])
        return '%d %d' % (a < b, a == b)
    if op == 'v4ops':
        a, m = int(t[1]), int(t[2])
        return '%d %d %d' % (a & m, a | m, ~a & 0xffffffff)
    if op == 'v4rng':
        a, p, x = int(t[1]), int(t[2]), int(t[3])
        mask = (0xffffffff << (32 - p)) & 0xffffffff if p else 0
        first, last = a & mask, a | (~mask & 0xffffffff)
        return '%d %d %d *' % (first, last, first <= x <= last)
    if op in ('v4it', 'bufit'):
        if op == 'v4it':
            f, l, n = int(t[1]), int(t[2]), 4
            show = lambda v: str(v)
        else:
            n = (len(t[1]) - 1) // 2
            f, l = int.from_bytes(unx(t[1]), 'big'), int.from_bytes(unx(t[2]), 'big')
            show = lambda v: 'x' + v.to_bytes(n, 'big').hex()
        hosts, lim = int(t[3]), int(t[4])
        if l < f:
            return '-1'
        if hosts:
            if l - f < 1:
                return None       # /32-like host ranges: documented as not iterable
            lo, hi = f + 1, l - 1
        else:
            lo, hi = f, l
        cnt = hi - lo + 1
        vals = list(range(lo, min(lo + lim, hi + 1)))
        return summ(vals, cnt <= lim, show)
    if op == 'hwp':
        r = ref_hw(unx(t[1]).decode('latin1'))
        return '0' if r is None else '1 x' + r.hex()
    if op == 'hws':
        return H(hwstr(unx(t[1])))
    if op == 'bufcmp':
        a, b = unx(t[1]), unx(t[2])
        return '%d %d' % (a < b, a == b)
    if op == 'bufrng':
        a, p, x = unx(t[1]), int(t[2]), unx(t[3])
        n = len(a)
        full = (1 << 8 * n) - 1
        mask = (full << (8 * n - p)) & full if p else 0
        av, xv = int.from_bytes(a, 'big'), int.from_bytes(x, 'big')
        first, last = av & mask, av | (~mask & full)
        return 'x%s x%s %d *' % (first.to_bytes(n, 'big').hex(), last.to_bytes(n, 'big').hex(), first <= xv <= last)
    if op == 'v6rt':
        return '1'
    return None


def make_oracle(known_keys):
    def oracle(lines, lh):
        bad = []
        for i, l in enumerate(lines):
            e = expect(l)
            if e is None:
                continue
            got = lh[i] if i < len(lh) else '<missing>'
            if e.endswith(' *'):      # is_iterable() is not part of the property: compared model-vs-code only
                got = ' '.join(got.split()[:3]) + ' *'
            if got != e:
                bad.append('op %d (%s): C++ says "%s", reference says "%s"' % (i, l if len(l) < 120 else l[:120], got[:300], e[:300]))
        return bad
    return oracle


def known(lines, complaints, lh):
    """attribute one complaint to the recorded hardware-address text finding: an hwp op on which libtins and the strict
    grammar disagree in exactly the recorded ways (extra text after six groups, empty group, final one-digit group)"""
    m = re.match(r'op \d+ \(hwp (x[0-9a-f]*)\)', complaints)
    if not m:
        return None
    s = bytes.fromhex(m.group(1)[1:]).decode('latin1')
    groups = s.split(':')
    six_then_more = len(groups) > 6 and ref_hw(':'.join(groups[:6])) is not None
    empty_group = '' in groups and all(re.fullmatch(r'[0-9a-fA-F]{0,2}', g) for g in groups[:6])
    last_single = ref_hw(s) is not None and len(groups[-1]) == 1
    if six_then_more or empty_group or last_single:
        return KN.get('hwtext')
    return None


KN = {}


def cmp(lm, lh):
    return C.default_cmp(lm, lh)


def run(ctx):
    kn, _ = C.load_known('C16')
    for k in kn:
        KN[k['key']] = k['text']
    ctx.cov['trusted_base'] += ['extraction: ExtrOcamlBasic only; harness/driver.ml; harness/h_addr.cpp',
                                'glibc inet_pton(AF_INET) modelled by pton4 (validated by the correspondence run); glibc IPv6 text functions external (round trip checked differentially only)',
                                'hand-written model Model/Addr.v tied by correspondence']
    ok, why = C.prove(ctx, 'C16')
    runner_ok = True
    try:
        C.build_runner()
    except C.BuildError as e:
        runner_ok = False; ok = False; why = (why + '\n' + str(e)).strip()
    C.build_harness('h_addr')
    rng = ctx.rng
    quick = ctx.tier == 'quick'
    n = 2500 if quick else 40000
    batch = [gen(rng, 'a%d' % i) for i in range(n)]
    oracle = make_oracle(KN)
    stats = C.differential(ctx, 'addr', 'h_addr', batch, oracle, cmp=cmp, keep_first=0,
                           nontrivial=lambda lines, lh: len(set(l.split()[0] for l in lines)) >= 3, runner_ok=runner_ok, known=known)
    # IPv6 text round trip: glibc is external, C++-only differential
    b6 = [gen_v6text(rng, 't%d' % i) for i in range(200 if quick else 3000)]
    h = C.run_harness('h_addr', b6)
    ctx.cov['evaluations'] += len(b6)
    for sid, lines in b6:
        out = h.get(sid, [])
        for i, l in enumerate(lines):
            if i >= len(out) or out[i] != '1':
                ctx.violation('IPv6 text round trip fails for %s: %s' % (l, out[i] if i < len(out) else '<missing>'), '=== replay\n%s\n' % l, has_input=True)
                break
    ctx.cov['rule'] = ('per script 4-11 operations drawn from: IPv4/HW text parse of near-valid strings (grammar mutations), printing, comparisons (+hash consistency), '
                       'mask operators, prefix ranges with contains() at and around both ends, range iteration (hosts and plain) incl. ranges ending at all-ones and the whole IPv4 space, '
                       'for IPv4, 6-byte and 16-byte addresses; non-trivial = distinct script with >=3 operation kinds; plus IPv6 text round trips through glibc')
    ctx.cov['samples'] = [batch[0][1][:6], b6[0][1][:2]]
    ctx.notes['stats'] = stats
    C.obligations_failed(ctx, ok, why, 'theorems of Properties/C16.v no longer check')


def replay(ctx, path):
    C.build_runner(); C.build_harness('h_addr')
    kn, _ = C.load_known('C16')
    for k in kn:
        KN[k['key']] = k['text']
    C.differential(ctx, 'addr', 'h_addr', [('replay', C.read_replay(path))], make_oracle(KN), cmp=cmp, keep_first=0, known=known)
    return ctx.finish()
