"""C17 — capture files round-trip and the capture loop survives any frame."""
import os, re, struct
import common as C
import pktcommon as PC

# DLT value -> (top-level entry classes whose harvested samples are valid frames of that link type)
LINKS = {1: ['EthernetII', 'Dot3'], 105: ['Dot11'], 127: ['RadioTap'], 0: ['Loopback'], 113: ['SLL'], 12: ['IP', 'IPv6'], 192: ['PPI']}
FILE_LINKTYPE = {1: 1, 105: 105, 127: 127, 0: 0, 113: 113, 12: 101, 192: 192}
FILTERS = ['ip', 'tcp', 'udp', 'udp port 53', 'arp', 'ip6', 'icmp', 'len > 100', 'less 60', 'not ip', 'tcp[13] & 2 != 0', 'ip[8] > 10',
           'host 10.0.0.1', 'src net 192.168.0.0/16', 'tcp dst port 80 or udp', 'ip and not tcp', 'ether dst ff:ff:ff:ff:ff:ff', 'vlan']
# libpcap's savefile reader keeps the seconds in a signed 32-bit field (it sign-extends 0x80000000 and above): the format
# holds timestamps up to 2^31 s, which is what is generated (first run used 2^32 and tripped over libpcap, not libtins)
TS_LIMIT = 2147483648 * 1000000
TS_EDGE = [0, 1, 999999, 1000000, 1000001, TS_LIMIT - 1, TS_LIMIT - 1000000, 1700000000123456]


def hx(b):
    return 'x' + bytes(b).hex()


def pcap_file(linktype, records, snaplen=65535):
    out = struct.pack('<IHHiIII', 0xa1b2c3d4, 2, 4, 0, 0, snaplen, linktype)
    for ts, data in records:
        out += struct.pack('<IIII', (ts // 1000000) & 0xffffffff, ts % 1000000, len(data), len(data)) + data
    return out


def parse_pcap(b):
    magic, vmaj, vmin, zone, sig, snap, lt = struct.unpack('<IHHiIII', b[:24])
    recs = []
    off = 24
    while off + 16 <= len(b):
        sec, usec, caplen, ln = struct.unpack('<IIII', b[off:off + 16])
        recs.append((sec, usec, caplen, ln, b[off + 16: off + 16 + caplen]))
        off += 16 + caplen
    return (magic, vmaj, vmin, snap, lt), recs, off == len(b)


def run(ctx):
    st, acc = PC.prepare(ctx, ('gen_accessors',))
    scratch = os.path.join(C.BUILD, 'scratch')
    os.makedirs(scratch, exist_ok=True)
    os.environ['VERIF_SCRATCH'] = scratch
    ctx.cov['trusted_base'] += ['Model/Capture.v: timestamp split/join and the next_packet / sniff_loop / iteration control flow, hand-written from sniffer.cpp, sniffer.h, packet_writer.cpp, timestamp.cpp; tied by correspondence',
                                'libpcap itself (file format, BPF compiler and interpreter) is the reference for file contents and filter verdicts: observed, not modelled',
                                'which frames parse is decided by calling the link type\'s top-level constructor directly (harness op "parses"), not by the sniffer',
                                'harness/h_cap.cpp writes its scratch capture files under /verif/build/scratch']
    ok, why = C.prove(ctx, 'C17')
    runner_ok = True
    try:
        C.build_runner()
    except C.BuildError as e:
        runner_ok = False; ok = False; why = (why + '\n' + str(e)).strip()
    C.build_harness('h_cap')
    rng = ctx.rng
    quick = ctx.tier == 'quick'
    entries = sorted(set(sum(LINKS.values(), [])))
    hv = PC.harvested_corpus([e for e in entries if e in acc['from_buffer'] or e == 'Dot11'], max_per_entry=25)
    by_entry = {}
    for e, b in hv:
        if e != 'Dot11':
            by_entry.setdefault(e, []).append(b)
    # bare 802.11 frames: what follows the radiotap header of the harvested radiotap samples
    for b in by_entry.get('RadioTap', []):
        if len(b) >= 8:
            ln = struct.unpack('<H', b[2:4])[0]
            if 8 <= ln < len(b):
                by_entry.setdefault('Dot11', []).append(b[ln:])
    # keep only frames the link type's own top-level constructor accepts
    cand = [(d, f) for d, ents in LINKS.items() for e in ents for f in by_entry.get(e, [])]
    okh = C.run_harness('h_cap', [('k%d' % i, ['parses %d %s' % (d, hx(f))]) for i, (d, f) in enumerate(cand)])
    accepted = set((d, f) for i, (d, f) in enumerate(cand) if [l for l in okh.get('k%d' % i, []) if l == 'A 1'])
    for d, ents in LINKS.items():
        for e in ents:
            by_entry[e] = [f for f in by_entry.get(e, []) if (d, f) in accepted]
    seen = set()

    def report(msg, lines, lh, has_input=True):
        key = re.sub(r'[0-9a-fx]{6,}|\d+', 'N', msg)[:70]
        if key in seen or len(seen) >= 6:
            return
        seen.add(key)
        ctx.violation(msg[:400], '=== replay\n' + '\n'.join(l[:100000] for l in lines) + '\n--- ' + msg + '\n--- C++ output\n' + '\n'.join(l[:300] for l in lh[-6:]) + '\n', has_input=has_input)

    # ---- 1. writer -> file -> sniffer round trip, every link type ----
    scripts, meta = [], {}
    n = 0
    for dlt, ents in LINKS.items():
        pool = [(e, b) for e in ents for b in by_entry.get(e, [])]
        if not pool or dlt == 192:          # PPI is a read-only layer (serialize() throws pdu_not_serializable by design): nothing to write
            continue
        for rep in range(3 if quick else 25):
            k = rng.choice([1, 2, 5, 20]) if quick else rng.choice([1, 5, 50, 300, 1000])
            frames = [pool[rng.randrange(len(pool))] for _ in range(k)]
            tss = [rng.choice(TS_EDGE) if rng.random() < 0.3 else rng.randrange(0, TS_LIMIT) for _ in range(k)]
            # the writer is opened either with the libpcap number or the documented way, DataLinkType<Class>()
            how = rng.choice([str(dlt), 'IP' if dlt == 12 else frames[0][0]])
            if dlt == 1 and (rep == 0 or rng.random() < 0.6):
                # Ethernet captures: some packets are built through the API and written without ever having been serialized
                frames = [(('API', None) if rng.random() < 0.4 else f) for f in frames]
                if rep == 0:
                    frames[rng.randrange(len(frames))] = ('API', None)
            lines = ['wopen %s' % how] + [('wapi %d %d' % (t, rng.choice([0, 10, 100, 1000])) if b is None else 'wpkt %d %d %s' % (dlt, t, hx(b))) for (e, b), t in zip(frames, tss)] + ['wclose', 'read 1', 'read 0']
            sid = 'w%d' % n
            n += 1
            scripts.append((sid, lines))
            meta[sid] = (dlt, frames, tss)
    # packets that serialize to nothing (RawPDU("")) are records too: they must not vanish from the file
    zs = []
    for i in range(6 if quick else 60):
        sizes = [rng.choice([0, 0, 1, 40]) for _ in range(rng.randrange(2, 7))]
        tz = [rng.randrange(0, TS_LIMIT) for _ in sizes]
        zs.append(('z%d' % i, ['wopen 12'] + ['wraw %d x%s' % (t, bytes(rng.randrange(256) for _ in range(k)).hex()) for t, k in zip(tz, sizes)] + ['wclose', 'read 1'], sizes, tz))
    zh = C.run_harness('h_cap', [(a_, b_) for a_, b_, _, _ in zs])
    ctx.cov['evaluations'] += len(zs)
    for sid, lines, sizes, tz in zs:
        lh = [l for l in zh.get(sid, []) if not l.startswith('!~')]
        try:
            pi0 = [i for i, l in enumerate(lh) if l.startswith('P ')][0]
            recs_ = [(int(l.split()[1]), (len(l.split()[3]) - 1) // 2) for l in lh[pi0 + 1: pi0 + 1 + int(lh[pi0].split()[1])]]
        except Exception:
            recs_ = None
        if any(l.startswith('!!') or l.startswith('E ') for l in lh) or recs_ != list(zip(tz, sizes)):
            report('%d packets written (sizes %s), read back as %s' % (len(sizes), sizes, recs_), lines, lh)
            break
    h = C.run_harness('h_cap', scripts)
    ms = [('t%d' % i, ['ts %d' % t]) for i, t in enumerate(TS_EDGE + [rng.randrange(0, TS_LIMIT) for _ in range(200)])]
    mo = C.run_model('cap', ms) if runner_ok else {}
    ctx.cov['evaluations'] += len(scripts)
    nontriv = 0
    reser = 0
    lendiff = 0
    for sid, lines in scripts:
        dlt, frames, tss = meta[sid]
        lh = [l for l in h.get(sid, ['<none>']) if not l.startswith('!~')]
        bad = [l for l in lh if l.startswith('!!') or l.startswith('E ')]
        if bad:
            report('writer/sniffer round trip (link type %d): %s' % (dlt, bad[0]), lines, lh)
            continue
        try:
            fline = [l for l in lh if l.startswith('F ')][0]
            hdr, recs, whole = parse_pcap(bytes.fromhex(fline[3:]))
            pi = [i for i, l in enumerate(lh) if l.startswith('P ')]
            raw = [l.split() for l in lh[pi[0] + 1: pi[0] + 1 + int(lh[pi[0]].split()[1])]]
            par = [l.split() for l in lh[pi[1] + 1: pi[1] + 1 + int(lh[pi[1]].split()[1])]]
        except Exception as ex:
            report('writer/sniffer round trip: unexpected harness output (%s)' % ex, lines, lh)
            continue
        if hdr[0] != 0xa1b2c3d4 or hdr[4] != FILE_LINKTYPE[dlt] or not whole or len(recs) != len(frames):
            report('capture file written for link type %d: header %s, %d records for %d packets' % (dlt, hdr, len(recs), len(frames)), lines, lh)
            continue
        wl = [l.split() for l in lh if l.startswith('W ')]
        for i, ((e, b), t, rec) in enumerate(zip(frames, tss, recs)):
            if i < len(wl) and int(wl[i][1]) != len(rec[4]):
                report('record %d: the packet written has size() %s, the record holds %d octets' % (i, wl[i][1], len(rec[4])), lines, lh)
                break
            if b is None:
                b = bytes.fromhex(wl[i][2][1:]) if i < len(wl) and len(wl[i]) > 2 else b''
                if rec[4] != b:
                    report('record %d: an API-built packet written without prior serialize() is stored as %s..., its serialization is %s...' % (i, rec[4].hex()[:60], b.hex()[:60]), lines, lh)
                    break
            if (rec[0], rec[1]) != (t // 1000000, t % 1000000):
                report('record %d: timestamp fields %s for a packet stamped %d us' % (i, rec[:2], t), lines, lh)
                break
            # the original-length field is the packet's advertised size (IPv4 total length etc.) and may legitimately differ from
            # the captured length; the property speaks about bytes and timestamps, so only caplen is checked.  (Observed, not
            # reported: a TSO frame with total length 0 is written with len = 14 < caplen.)
            if rec[2] != len(rec[4]):
                report('record %d: caplen %d, %d data bytes' % (i, rec[2], len(rec[4])), lines, lh)
                break
            if rec[3] != rec[2]:
                lendiff += 1
            if rec[4] != b:
                reser += 1
            if i >= len(raw) or int(raw[i][1]) != t or raw[i][3][1:] != rec[4].hex():
                report('packet %d read back (raw mode) as ts=%s bytes=%s..., written ts=%d bytes=%s...' % (i, raw[i][1] if i < len(raw) else '-', (raw[i][3] if i < len(raw) else '')[:40], t, rec[4].hex()[:40]), lines, lh)
                break
        else:
            if len(raw) != len(frames):
                report('%d packets written, %d read back' % (len(frames), len(raw)), lines, lh)
            elif [int(x[1]) for x in par] != tss:
                report('%d packets written, parsed mode yields timestamps %s...' % (len(frames), [x[1] for x in par][:5]), lines, lh)
            else:
                nontriv += 1
    for sid, lines in ms:
        t = int(lines[0].split()[1])
        if runner_ok and mo.get(sid, [''])[0].split() != [str(t // 1000000 & 0xffffffff), str(t % 1000000), str(t)]:
            report('correspondence: Model/Capture.v timestamp split of %d gives %s' % (t, mo.get(sid)), lines, [], has_input=False)
    ctx.cov['reserialized_differently_from_input'] = reser
    ctx.cov['records_with_len_different_from_caplen'] = lendiff

    # ---- 2. arbitrary capture files: the loops see exactly the frames that parse ----
    scripts, meta = [], {}
    pq = []
    for dlt, ents in LINKS.items():
        pool = [b for e in ents for b in by_entry.get(e, [])]
        for rep in range(6 if quick else 60):
            k = rng.choice([0, 1, 3, 10, 40]) if quick else rng.choice([0, 1, 10, 100, 1000])
            frames = []
            for _ in range(k):
                r = rng.random()
                if r < 0.45 and pool:
                    f = pool[rng.randrange(len(pool))]
                elif r < 0.7 and pool:
                    f = PC.mutate(rng, pool[rng.randrange(len(pool))])
                elif r < 0.8:
                    f = b''
                elif r < 0.9 and dlt == 1:
                    # 802.3 frames (length field below 0x0600) whose LLC / STP body is cut short or ill-formed: they do not parse
                    # and must be skipped, not handed out as something else
                    body = rng.choice([b'', b'\x42', b'\x42\x42', b'\x42\x42\x03', b'\x42\x42\x03\x00\x00\x00', b'\xaa\xaa\x03\x00', b'\x42\x42\x01', b'\x00\x00\x00'])
                    body += bytes(rng.randrange(256) for _ in range(rng.choice([0, 0, 1, 2, 5])))
                    f = bytes(rng.randrange(256) for _ in range(12)) + struct.pack('>H', rng.choice([len(body), 3, 0x26, 0x05dc, 0x0100])) + body
                    if rng.random() < 0.4:
                        # well-formed LLC behind every kind of value below 0x0800 (a length up to 1500, the undefined 1501..1535, 0x0600..0x07ff)
                        f = bytes(rng.randrange(256) for _ in range(12)) + struct.pack('>H', rng.choice([8, 0x05dc, 0x05dd, 0x05ff, 0x0600, 0x07ff])) + bytes([0x42, 0x42, 0x03]) + bytes(rng.randrange(256) for _ in range(5))
                else:
                    f = bytes(rng.randrange(256) for _ in range(rng.choice([1, 2, 3, 4, 8, 13, 14, 20, 60, 300])))
                frames.append(f)
            base = rng.randrange(1, 1 << 40)
            tss = [base + i for i in range(k)]
            fb = pcap_file(FILE_LINKTYPE[dlt], list(zip(tss, frames)))
            if frames and rng.random() < 0.25:
                # a damaged file: the last record is cut short (inside its 16-octet record header or inside its data); libpcap
                # reports a read error there: everything before it is handed out and the loops end as at end of file
                cut = rng.randrange(1, 16 + len(frames[-1]) + (0 if frames[-1] else 0)) if (16 + len(frames[-1])) > 1 else 1
                cut = min(cut, 16 + len(frames[-1]) - (0 if len(frames[-1]) else 1)) or 1
                fb = fb[:len(fb) - cut]
                frames, tss = frames[:-1], tss[:-1]
                k -= 1
            maxp = rng.choice([0, 0, 1, 2, 5, k, k + 3])
            stop = rng.choice([0] + tss) if tss else 0
            sid = 'f%d' % len(scripts)
            lines = ['file ' + hx(fb), 'read 0', 'iter', 'loop %d %d' % (maxp, stop), 'read 1']
            scripts.append((sid, lines))
            meta[sid] = (dlt, frames, tss, maxp, stop)
            for f in frames:
                pq.append((dlt, f))
    uniq = sorted(set(pq))
    ph = C.run_harness('h_cap', [('q%d' % i, ['parses %d %s' % (d, hx(f))]) for i, (d, f) in enumerate(uniq)])
    parses = {}
    ptypes = {}
    for i, (d, f) in enumerate(uniq):
        o = [l for l in ph.get('q%d' % i, []) if not l.startswith('!~')]
        parses[(d, f)] = o[-1].startswith('A 1') if o and o[-1].startswith('A ') else None
        ptypes[(d, f)] = o[-1].split()[2] if o and o[-1].startswith('A 1 ') else None
    h = C.run_harness('h_cap', scripts)
    mscripts = []
    for sid, lines in scripts:
        dlt, frames, tss, maxp, stop = meta[sid]
        bits = ' '.join('1' if parses[(dlt, f)] else '0' for f in frames)
        stop_idx = tss.index(stop) if stop in tss else -1
        mscripts.append((sid, ['loop %d %d [%s]' % (maxp, stop_idx, bits)]))
    mo = C.run_model('cap', mscripts) if runner_ok else {}
    ctx.cov['evaluations'] += len(scripts) + len(uniq)
    ctx.cov['traces_validated_against_impl'] = len(scripts) if runner_ok else 0
    for sid, lines in scripts:
        dlt, frames, tss, maxp, stop = meta[sid]
        lh = [l for l in h.get(sid, ['<none>']) if not l.startswith('!~')]
        bad = [l for l in lh if l.startswith('!!') or l.startswith('E ')]
        if bad:
            report('reading a capture file (link type %d, %d frames): %s escapes the loop' % (dlt, len(frames), bad[0]), lines, lh)
            continue
        if any(parses[(dlt, f)] is None for f in frames):
            report('the top-level parser of link type %d crashes on a frame of the file' % dlt, lines, lh)
            continue
        want = [t for t, f in zip(tss, frames) if parses[(dlt, f)]]
        try:
            pi = [i for i, l in enumerate(lh) if l.startswith('P ')]
            got = [int(l.split()[1]) for l in lh[pi[0] + 1: pi[0] + 1 + int(lh[pi[0]].split()[1])]]
            got_types = [l.split()[2] for l in lh[pi[0] + 1: pi[0] + 1 + int(lh[pi[0]].split()[1])]]
            ls = [l for l in lh if l.startswith('L')]
            it = [int(x) for x in ls[0].split()[1:]]
            lp_all = ls[1].split()[1:]
            lp = [int(x) for x in lp_all[:lp_all.index('|')]]
            rest_after = [int(x) for x in lp_all[lp_all.index('|') + 1:]]
            rawn = int(lh[pi[1]].split()[1])
        except Exception as ex:
            report('reading a capture file: unexpected harness output (%s)' % ex, lines, lh)
            continue
        if got != want:
            report('next_packet() over a file of %d frames yields frames %s, the frames that parse are %s' % (len(frames), [g - tss[0] for g in got][:12], [w - tss[0] for w in want][:12]), lines, lh)
        elif got_types != [ptypes[(dlt, f)] for f in frames if parses[(dlt, f)]]:
            report('next_packet() hands out top-level layers of pdu_type %s, the link type\'s documented dispatch gives %s' % (got_types[:12], [ptypes[(dlt, f)] for f in frames if parses[(dlt, f)]][:12]), lines, lh)
        elif it != want:
            report('range iteration yields frames %s, the frames that parse are %s' % ([g - tss[0] for g in it][:12], [w - tss[0] for w in want][:12]), lines, lh)
        elif rawn != len(frames):
            report('raw mode yields %d of %d frames' % (rawn, len(frames)), lines, lh)
        else:
            # sniff_loop: prefix of want cut at the stop packet and at max
            exp = []
            for t in want:
                exp.append(t)
                if t == stop or (maxp and len(exp) == maxp):
                    break
            if lp != exp:
                report('sniff_loop(max=%d, functor stops at frame %s) visited %s, expected %s' % (maxp, stop - tss[0] if tss else '-', [g - tss[0] for g in lp][:12], [w - tss[0] for w in exp][:12]), lines, lh)
            elif rest_after != want[len(exp):] if (exp and (exp[-1] == stop or (maxp and len(exp) == maxp))) else rest_after != []:
                report('after sniff_loop(max=%d, functor stops at frame %s) handed out %d frames, next_packet() on the same sniffer yields %s, the frames still unread are %s'
                       % (maxp, stop - tss[0] if tss else '-', len(exp), [g - tss[0] for g in rest_after][:12], [w - tss[0] for w in want[len(exp):]][:12]), lines, lh)
            elif runner_ok:
                lm = [int(x) for x in mo.get(sid, [''])[0].split()] if mo.get(sid, [''])[0] else []
                if [tss[i] for i in lm] != lp:
                    report('correspondence Model/Capture.v <-> C++ broken on sniff_loop(max=%d): model %s, C++ %s' % (maxp, lm[:12], [g - tss[0] for g in lp][:12]), lines, lh, has_input=False)
            if want and len(want) < len(frames):
                nontriv += 1

    # ---- 3. BPF: sniffer filter == OfflinePacketFilter == libpcap on the raw bytes ----
    scripts = []
    for dlt in (1, 12, 113):
        pool = [b for e in LINKS[dlt] for b in by_entry.get(e, [])]
        if not pool:
            continue
        for rep in range(2 if quick else 10):
            frames = [pool[rng.randrange(len(pool))] if rng.random() < 0.8 else PC.mutate(rng, pool[rng.randrange(len(pool))]) for _ in range(30 if quick else 300)]
            fb = pcap_file(FILE_LINKTYPE[dlt], [(1000 + i, f) for i, f in enumerate(frames)])
            for flt in FILTERS:
                if dlt != 1 and flt.startswith(('ether', 'vlan', 'arp')):
                    continue
                scripts.append(('b%d' % len(scripts), ['file ' + hx(fb), 'bpf %d %s' % (dlt, flt)]))
    h = C.run_harness('h_cap', scripts)
    ctx.cov['evaluations'] += len(scripts)
    selective = 0
    for sid, lines in scripts:
        lh = [l for l in h.get(sid, ['<none>']) if not l.startswith('!~')]
        bad = [l for l in lh if l.startswith('!!') or l.startswith('E ')]
        if bad:
            report('filter "%s": %s' % (lines[1], bad[0]), lines, lh)
            continue
        last = lh[-1]
        if last == 'B invalid':
            continue
        parts = [p.split() for p in re.findall(r'\[([^\]]*)\]', last)]
        if len(parts) != 3:
            report('filter: unexpected harness output %s' % last[:100], lines, lh)
        elif parts[0] != parts[1] or parts[0] != parts[2]:
            report('filter "%s": libpcap selects %d frames, OfflinePacketFilter %d, FileSniffer %d' % (' '.join(lines[1].split()[2:]), len(parts[0]), len(parts[1]), len(parts[2])), lines, lh)
        elif 0 < len(parts[0]) < 30:
            selective += 1
    ctx.cov['distinct_nontrivial'] = nontriv + selective
    ctx.cov['rule'] = ('link types EN10MB, IEEE802_11, IEEE802_11_RADIO, NULL, LINUX_SLL, RAW, PPI; (1) 1..1000 harvested packets with boundary and random 48-bit-second timestamps written by PacketWriter, the file '
                       'decoded independently, read back in raw and parsed mode; (2) hand-made capture files mixing valid packets, mutated packets, zero-length and random frames, read by next_packet, range iteration and '
                       'sniff_loop with a limit and a stopping functor, against the frames the top-level constructor accepts and against the model; (3) %d filter expressions: FileSniffer, OfflinePacketFilter and libpcap itself; '
                       'non-trivial = files whose timestamps/bytes all round-trip, files with a proper mix of parsing and non-parsing frames, filters that select a proper subset' % len(FILTERS))
    C.obligations_failed(ctx, ok, why, 'theorems of Properties/C17.v no longer check')


def replay(ctx, path):
    C.ensure_repo_build()
    os.environ['VERIF_SCRATCH'] = os.path.join(C.BUILD, 'scratch')
    os.makedirs(os.environ['VERIF_SCRATCH'], exist_ok=True)
    C.build_harness('h_cap')
    lines = C.read_replay(path)
    print('\n'.join(l[:300] for l in C.run_harness('h_cap', [('r', lines)]).get('r', [])))
    return ctx.finish()
