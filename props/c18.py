"""C18 — independent objects can be used from different threads without data races."""
import os, re, json, struct, subprocess
import common as C
import pktcommon as PC
import wifi as W


def hx(b):
    return 'x' + bytes(b).hex()


def ip_tcp(src, dst, sport, dport, flags, seq, ack, data=b'', ident=1):
    tcp = struct.pack('>HHIIBBHHH', sport, dport, seq & 0xffffffff, ack & 0xffffffff, 0x50, flags, 1000, 0, 0) + data
    return struct.pack('>BBHHHBBH', 0x45, 0, 20 + len(tcp), ident, 0, 64, 6, 0) + src + dst + tcp


def workload(rng, nthreads, per_thread, hv, dns_samples):
    """lines '<thread> <op> ...' - every thread gets its own mix, drawn from the generators of the other properties"""
    lines = []
    for t in range(nthreads):
        for _ in range(per_thread):
            r = rng.random()
            if r < 0.12:
                # frames whose next-protocol value has no decoder (and no registered allocator): unknown ethertypes / IP protocols
                if rng.random() < 0.3:
                    # IP-in-IP / IPv6-in-IP tunnels, a few levels deep
                    inner = struct.pack('>HHHH', 1, 2, 12, 0) + bytes(4)
                    proto = 17
                    for lvl in range(rng.randrange(2, 6)):
                        inner = struct.pack('>BBHHHBBH', 0x45, 0, 20 + len(inner), lvl, 0, 64, proto, 0) + bytes([10, 0, lvl, 1, 10, 0, lvl, 2]) + inner
                        proto = 4
                    lines.append('%d P IP %s' % (t, hx(inner)))
                elif rng.random() < 0.5:
                    b = bytes(6) + bytes([2, 0, 0, 0, 0, 1]) + struct.pack('>H', rng.choice([0x9000, 0xa000, 0x88b5, 0x1234]) + rng.randrange(4096)) + bytes(rng.randrange(256) for _ in range(20))
                    lines.append('%d P EthernetII %s' % (t, hx(b)))
                else:
                    b = struct.pack('>BBHHHBBH', 0x45, 0, 40, 9, 0, 64, rng.choice([143, 144, 200, 201, 253]) + rng.randrange(3), 0) + bytes([10, 0, 0, 1, 10, 0, 0, 2]) + bytes(20)
                    lines.append('%d P IP %s' % (t, hx(b)))
            elif r < 0.35 and hv:
                e, b = hv[rng.randrange(len(hv))]
                if rng.random() < 0.3:
                    b = PC.mutate(rng, b)
                lines.append('%d P %s %s' % (t, e, hx(b)))
            elif r < 0.5 and dns_samples:
                b = dns_samples[rng.randrange(len(dns_samples))]
                lines.append('%d D %s' % (t, hx(b)))
            elif r < 0.6:
                # a UDP datagram in 2-4 fragments, shuffled
                n = rng.choice([16, 24, 40, 64])
                payload = bytes(rng.randrange(256) for _ in range(n))
                src, dst = bytes([10, 0, 0, rng.randrange(1, 250)]), bytes([10, 0, 1, rng.randrange(1, 250)])
                cuts = sorted(set([0, n] + [8 * rng.randrange(1, n // 8) for _ in range(rng.randrange(1, 3))]))
                frs = []
                for a, b2 in zip(cuts, cuts[1:]):
                    mf = 0x2000 if b2 != n else 0
                    frs.append(struct.pack('>BBHHHBBH', 0x45, 0, 20 + b2 - a, 77, mf | (a // 8), 64, 253, 0) + src + dst + payload[a:b2])
                rng.shuffle(frs)
                lines.append('%d F %s' % (t, ' '.join(hx(f) for f in frs)))
            elif r < 0.7:
                a, b2 = bytes([10, 0, 0, rng.randrange(1, 250)]), bytes([10, 0, 1, rng.randrange(1, 250)])
                isn, isn2 = rng.randrange(1 << 32), rng.randrange(1 << 32)
                d1, d2 = bytes(rng.randrange(256) for _ in range(5)), bytes(rng.randrange(256) for _ in range(7))
                pk = [ip_tcp(a, b2, 1234, 80, 2, isn, 0), ip_tcp(b2, a, 80, 1234, 18, isn2, isn + 1), ip_tcp(a, b2, 1234, 80, 16, isn + 1, isn2 + 1),
                      ip_tcp(a, b2, 1234, 80, 24, isn + 6, isn2 + 1, d2), ip_tcp(a, b2, 1234, 80, 24, isn + 1, isn2 + 1, d1),
                      ip_tcp(b2, a, 80, 1234, 24, isn2 + 1, isn + 13, d1), ip_tcp(a, b2, 1234, 80, 17, isn + 13, isn2 + 6), ip_tcp(b2, a, 80, 1234, 17, isn2 + 6, isn + 14)]
                lines.append('%d S %s' % (t, ' '.join(hx(p) for p in pk)))
            elif r < 0.8:
                bssid, sta, peer = bytes([2, 1, 1, 1, 1, rng.randrange(256)]), bytes([2, 2, 2, 2, 2, rng.randrange(256)]), bytes([2, 3, 3, 3, 3, 3])
                pt = bytes.fromhex('aaaa0300000088b5') + bytes(rng.randrange(256) for _ in range(rng.choice([1, 16, 40])))
                hdr = W.dot11_data_header(1, 0, bssid, sta, peer)
                if rng.random() < 0.4:
                    key = bytes(rng.randrange(256) for _ in range(5))
                    lines.append('%d W %s %s %s' % (t, hx(bssid), hx(key), hx(hdr + W.wep_encrypt(key, bytes(3), 0, pt))))
                else:
                    ptk = bytes(rng.randrange(256) for _ in range(80))
                    if rng.random() < 0.5:
                        lines.append('%d K %s 1 %s' % (t, hx(ptk), hx(hdr + W.ccmp_encrypt(ptk[32:48], hdr, rng.randrange(1 << 48), 0, pt))))
                    else:
                        lines.append('%d K %s 0 %s' % (t, hx(ptk), hx(hdr + W.tkip_encrypt(ptk[32:48], ptk[56:64], sta, peer, sta, 0, rng.randrange(1 << 48), 0, pt))))
            elif r < 0.9:
                lines.append('%d C %s' % (t, hx(bytes(rng.randrange(256) for _ in range(rng.choice([1, 20, 64, 1500]))))))
            else:
                lines.append('%d A %d.%d.%d.0 255.255.255.%d %02x:%02x:%02x:%02x:%02x:%02x %x:%x::%x' % (
                    t, rng.choice([10, 172, 192, 224, 8]), rng.randrange(256), rng.randrange(256), rng.choice([0, 128, 240]),
                    *[rng.randrange(256) for _ in range(6)], rng.choice([0xfe80, 0x2001, 0xff02, 0]), rng.randrange(65536), rng.randrange(65536)))
    return lines


def tsan_run(binary, cfg, lines, timeout=1200):
    env = dict(os.environ, TSAN_OPTIONS='halt_on_error=0 exitcode=66 report_signal_unsafe=0 history_size=4')
    p = subprocess.run([binary], input=('cfg %d %d %d\n' % cfg + '\n'.join(lines) + '\n').encode(), capture_output=True, env=env, timeout=timeout)
    return p.returncode, p.stdout.decode(errors='replace'), p.stderr.decode(errors='replace')


def race_summaries(err):
    out = []
    for blk in err.split('==================')[1:]:
        if 'ThreadSanitizer' not in blk:
            continue
        head = re.search(r'WARNING: ThreadSanitizer: ([^\n(]+)', blk)
        frames = re.findall(r'#\d+ (.+?) (?:/|<null>)', blk)
        tins = [f for f in frames if 'Tins::' in f]
        loc = re.search(r'Location is ([^\n]+)', blk)
        out.append('%s in %s%s' % (head.group(1).strip() if head else 'report', (tins or frames or ['?'])[0][:120], (' [' + loc.group(1)[:100] + ']') if loc else ''))
    return out


def run(ctx):
    st, acc = PC.prepare(ctx, ('gen_accessors',))
    gst = C.run_translators(('gen_statics',))
    ctx.cov['translators'] = dict(ctx.cov.get('translators', {}), **{k: v for k, v in gst.items()})
    ctx.cov['trusted_base'] += ['translate/gen_statics.py: the inventory (objdump of the current libtins.a: every object in .data/.bss/.tdata/.tbss) is exact; the CLASSIFICATION (const-qualified / never written) is textual and heuristic - ThreadSanitizer on the real code is the independent observer',
                                'Model/Threads.v is an argument about disciplined accesses, not a model of the C++ memory model; guard variables and the allocator registry are trusted to be synchronised by the runtime / used as documented',
                                'ThreadSanitizer (gcc 12, happens-before detector) sees only the schedules that occur: 2..16 threads, repeated rounds, randomised yields',
                                'harness/h_thr.cpp; workloads come from the generators of C01-C11 (harvested packets and mutations, DNS, fragments, TCP connections, WEP/TKIP/CCMP frames, checksums, addresses)']
    ok, why = C.prove(ctx, 'C18')
    inv = json.load(open(os.path.join(C.BUILD, 'statics.json'))) if os.path.exists(os.path.join(C.BUILD, 'statics.json')) else []
    ctx.cov['static_objects'] = {str(k): sum(1 for r in inv if r['class'] == k) for k in sorted(set(r['class'] for r in inv))}
    mutable = [r for r in inv if r['class'] == 9]
    rng = ctx.rng
    quick = ctx.tier == 'quick'
    C.ensure_tsan_build()
    binary = C.build_tsan_harness('h_thr')
    entries = [e for e in acc['from_buffer'] if e not in ('PPI', 'PKTAP')]
    hv = PC.harvested_corpus(entries, max_per_entry=15)
    dns_samples = [b for e, b in hv if e == 'DNS']
    configs = [(2, 4), (4, 3), (8, 2), (16, 2)] if quick else [(2, 20), (3, 20), (4, 20), (8, 15), (12, 10), (16, 10)]
    races, diffs, total_ops = [], [], 0
    replay_lines = None
    for (k, rounds) in configs:
        lines = workload(rng, k, 25 if quick else 120, hv, dns_samples)
        cfg = (k, rounds, rng.randrange(1 << 30))
        rc, out, err = tsan_run(binary, cfg, lines)
        m = re.search(r'REF (\d+)', out)
        total_ops += int(m.group(1)) * (rounds + 1) if m else 0
        rs = race_summaries(err)
        ds = [l for l in out.splitlines() if ' DIFF ' in l]
        if (rs or ds or rc not in (0, 66)) and replay_lines is None:
            replay_lines = ['cfg %d %d %d' % cfg] + lines
        races += rs
        diffs += ds
        if rc not in (0, 66) and not rs:
            races.append('harness exited with %d: %s' % (rc, err[-300:]))
    ctx.cov['evaluations'] += total_ops
    ctx.cov['distinct_nontrivial'] = sum(k * r for k, r in configs)
    ctx.cov['thread_configurations'] = ['%d threads x %d rounds' % c for c in configs]
    ctx.cov['rule'] = ('every thread runs its own mix of: construct-from-buffer + all getters + serialize + clone of harvested and mutated packets of every entry class, DNS record listing, IPv4 reassembly, '
                       'a TCP connection through StreamFollower, WEP/TKIP/CCMP decryption, checksums, address parsing/printing/range iteration - all on thread-private objects, started behind a barrier '
                       'with randomised yields, under ThreadSanitizer; outputs compared with the same workload run alone; non-trivial = thread-rounds executed')
    if races:
        ctx.violation('ThreadSanitizer: %s' % '; '.join(sorted(set(races))[:3])[:400],
                      '=== replay (stdin of build/bin/h_thr)\n' + '\n'.join(replay_lines or []) + '\n--- reports\n' + '\n'.join(sorted(set(races))[:20]) + '\n', has_input=True)
    if diffs:
        ctx.violation('a thread computed something else than it computes alone: %s' % diffs[0][:300],
                      '=== replay (stdin of build/bin/h_thr)\n' + '\n'.join(replay_lines or []) + '\n--- differences\n' + '\n'.join(diffs[:20]) + '\n', has_input=True)
    if mutable and not races and not diffs:
        why = (why + '\n' if why else '') + 'mutable static objects in the current build: ' + '; '.join('%s (%s)' % (r['symbol'][:80], r['why']) for r in mutable)
    C.obligations_failed(ctx, ok, why, 'theorems of Properties/C18.v no longer check (the regenerated inventory Gen/Statics.v lists a mutable static object, or a proof broke)')


def replay(ctx, path):
    C.ensure_tsan_build()
    binary = C.build_tsan_harness('h_thr')
    lines = C.read_replay(path)
    cfg = tuple(int(x) for x in lines[0].split()[1:4])
    rc, out, err = tsan_run(binary, cfg, lines[1:])
    print(out[-2000:])
    print('\n'.join(race_summaries(err)[:20]))
    return ctx.finish()
