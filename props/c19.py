"""C19 — ACK/SACK tracker agrees with a set-of-acknowledged-bytes model."""
import common as C

M32 = 1 << 32
H = 1 << 31
STARTS = [0, 1, 5000, H - 20, H, M32 - 1, M32 - 7, M32 - 300, M32 - 70000]


def toks(line):
    return line.replace('[', ' ').replace(']', ' ').split()


def gen_history(rng, sid, nseg, lossy):
    isn = rng.choice(STARTS) if rng.random() < 0.8 else rng.randrange(M32)
    use_sack = 1 if rng.random() < 0.9 else 0
    # stream cut into segments
    cuts = [0]
    for _ in range(nseg):
        cuts.append(cuts[-1] + rng.choice([1, 1, 2, 3, 7, 100, 1460, 70000 if rng.random() < 0.1 else 536]))
    segs = list(zip(cuts, cuts[1:]))
    order = segs[:]
    # mostly in order with local reordering, sometimes fully shuffled
    if rng.random() < 0.4:
        rng.shuffle(order)
    else:
        for _ in range(rng.randrange(0, nseg + 1)):
            i = rng.randrange(len(order)); j = min(len(order) - 1, i + rng.randrange(1, 4))
            order[i], order[j] = order[j], order[i]
    got = []          # received [a,b) ranges (unwrapped offsets)
    lines = ['new %d %d' % (isn, use_sack)]
    recent = []
    for (a, b) in order:
        got.append((a, b))
        # merge
        got.sort()
        merged = []
        for x, y in got:
            if merged and x <= merged[-1][1]:
                merged[-1] = (merged[-1][0], max(merged[-1][1], y))
            else:
                merged.append((x, y))
        got = merged
        ack = got[0][1] if got[0][0] == 0 else 0
        blocks = [g for g in got if g[0] > ack]
        # the block containing the segment just received first (RFC 2018), then others
        blocks.sort(key=lambda g: (0 if g[0] <= a < g[1] else 1, rng.random()))
        blocks = blocks[:rng.choice([1, 2, 3, 4, 4])]
        if rng.random() < lossy:
            continue
        edges = []
        for l, r in blocks:
            edges += [(isn + l) % M32, (isn + r) % M32]
        lines.append('pkt %d %d [%s]' % ((isn + ack) % M32, 1 if blocks else 0, ' '.join(map(str, edges))))
        # queries around every edge
        pts = [ack] + [e for blk in blocks for e in blk]
        for _ in range(rng.randrange(0, 4)):
            e = rng.choice(pts)
            s = e + rng.randrange(-3, 4)
            ln = rng.choice([0, 1, 2, 3, 5, 40, 1460])
            lines.append('q %d %d' % ((isn + s) % M32, ln))
        if rng.random() < 0.3:
            x, y = rng.choice(segs)
            lines.append('q %d %d' % ((isn + x) % M32, y - x))
    return (sid, lines)


def gen_wild(rng, sid):
    isn = rng.choice(STARTS)
    lines = ['new %d %d' % (isn, rng.randrange(2))]
    for _ in range(rng.randrange(1, 8)):
        if rng.random() < 0.6:
            n = rng.randrange(1, 5) * 2 + (1 if rng.random() < 0.1 else 0)
            es = [(isn + rng.choice([0, 1, 2, 5, 9, 10, 11, 20, H - 1, H, H + 1, M32 - 1, M32 - 3, rng.randrange(M32)])) % M32 for _ in range(n)]
            lines.append('pkt %d %d [%s]' % ((isn + rng.choice([0, 1, 3, 10, 15, H, M32 - 2, rng.randrange(M32)])) % M32, rng.randrange(2), ' '.join(map(str, es))))
        else:
            lines.append('q %d %d' % ((isn + rng.choice([0, 1, 5, 10, 20, M32 - 2, H])) % M32, rng.choice([0, 1, 2, 10, H, M32 - 1])))
    return (sid, lines)


def oracle(lines, lh):
    """set-of-acknowledged-bytes spec, applied to the C++ output; None if the history is not conforming"""
    t0 = toks(lines[0])
    if t0[0] != 'new':
        return None
    A = int(t0[1])            # unwrapped: we keep A as an unbounded integer whose residue is the ack
    use_sack = int(t0[2]) != 0
    S = []                    # list of [l, r) unwrapped
    bad = []
    for i, line in enumerate(lines):
        t = toks(line)
        out = lh[i] if i < len(lh) else '<missing>'
        if t[0] == 'new':
            exp = '%d []' % (A % M32)
            if out != exp:
                bad.append('line %d: new tracker shows "%s", expected "%s"' % (i, out, exp))
        elif t[0] == 'pkt':
            a = int(t[1]); has = int(t[2]) != 0
            d = (a - A) % M32
            if d >= H:
                if d != 0 and d > H:
                    pass      # old ACK (reordered): conforming receivers never send it; treat as non-conforming
                return None
            A2 = A + d
            edges = [int(x) for x in t[3:]]
            if len(edges) % 2:
                return None
            blocks = []
            for l, r in zip(edges[::2], edges[1::2]):
                L = A2 + ((l - A2) % M32)
                R = L + ((r - l) % M32)
                if not (A2 < L < R and R - A2 < H - 1):
                    return None
                blocks.append((L, R))
            A = A2
            if has and use_sack:
                S += blocks
            # canonical expected intervals above A
            segs = sorted((max(l, A + 1), r) for l, r in S if r > A + 1)
            merged = []
            for l, r in segs:
                if merged and l <= merged[-1][1]:
                    merged[-1][1] = max(merged[-1][1], r)
                else:
                    merged.append([l, r])
            S = [(l, r) for l, r in merged]
            ivs = []
            for l, r in merged:      # closed [l, r-1], split at the wrap
                lo, hi = l % M32, (r - 1) % M32
                if lo <= hi:
                    ivs.append((lo, hi))
                else:
                    ivs.append((lo, M32 - 1)); ivs.append((0, hi))
            ivs.sort()
            exp = '%d [%s]' % (A % M32, ' '.join('[%d %d]' % iv for iv in ivs))
            if out != exp:
                bad.append('line %d (%s): tracker state "%s", acknowledged-byte model says "%s"' % (i, line, out, exp))
        elif t[0] == 'q':
            s, ln = int(t[1]), int(t[2])
            d = (s - A) % M32
            sU = A + d if d < H else A + d - M32
            if ln >= H or d == H or sU + ln - A >= H - 1 or A - sU >= H - 1:
                return None
            def acked(x):
                return x < A or any(l <= x < r for l, r in S)
            # all bytes acked?  (interval arithmetic, not per byte)
            x = sU
            end = sU + ln
            ok = True
            while x < end:
                if x < A:
                    x = min(A, end)
                    continue
                nxt = None
                for l, r in S:
                    if l <= x < r:
                        nxt = r
                if nxt is None:
                    ok = False
                    break
                x = nxt
            exp = '1' if ok else '0'
            if out != exp:
                bad.append('line %d (%s): is_segment_acked=%s, model says %s' % (i, line, out, exp))
        if bad:
            break
    return bad


def nontrivial(lines, lh):
    return any(l.startswith('pkt') and '[[' in (lh[i] if i < len(lh) else '') for i, l in enumerate(lines)) and any(l.startswith('q') for l in lines)


def run(ctx):
    st = C.run_translators(('kernels',))
    ctx.notes['translated_kernels'] = st['kernels']
    ctx.cov['trusted_base'] += ['translate/cxx2gallina.py over clang-14 JSON AST (seq_compare regenerated each run)',
                                'extraction: ExtrOcamlBasic only; harness/driver.ml; harness/h_ack.cpp',
                                'boost::icl::interval_set<uint32_t> modelled as canonical closed-interval lists (validated by the correspondence run, not proved)']
    tie_broken = [k for k in st['kernels'] if not k['ok'] and k['kernel'] in ('seq_compare',)]
    ok, why = C.prove(ctx, 'C19')
    runner_ok = True
    try:
        C.build_runner()
    except C.BuildError as e:
        runner_ok = False
        ok = False
        why = (why + '\n' + str(e)).strip()
    C.build_harness('h_ack')
    rng = ctx.rng
    quick = ctx.tier == 'quick'
    batch = []
    for i in range(1200 if quick else 25000):
        batch.append(gen_history(rng, 'h%d' % i, rng.choice([2, 4, 8, 16]) if quick or i % 20 else 200, rng.choice([0, 0, 0.2, 0.5])))
    for i in range(400 if quick else 6000):
        batch.append(gen_wild(rng, 'w%d' % i))
    stats = C.differential(ctx, 'ack', 'h_ack', batch, oracle, nontrivial=nontrivial, runner_ok=runner_ok)
    ctx.cov['rule'] = ('receiver simulation over random segmentations/arrival orders at boundary initial sequence numbers (wrap included): '
                       'ACK + <=4 SACK blocks per packet, optional ACK loss, query grid straddling every edge; plus wild (non-conforming) '
                       'histories compared model-vs-code only; non-trivial = distinct history with a non-empty SACK set and at least one query')
    ctx.cov['samples'] = [batch[0][1][:12], batch[1200 if quick else 25000][1]]
    ctx.notes['stats'] = stats
    ctx.notes['input_distribution'] = {'conforming_histories': stats['oracle_applicable'], 'total': len(batch),
                                       'packets': sum(1 for b in batch for l in b[1] if l.startswith('pkt')),
                                       'queries': sum(1 for b in batch for l in b[1] if l.startswith('q '))}
    C.obligations_failed(ctx, ok and not tie_broken, why, 'theorems of Properties/C19.v / the generated-kernel tie no longer check')


def replay(ctx, path):
    C.build_runner(); C.build_harness('h_ack')
    lines = C.read_replay(path)
    C.differential(ctx, 'ack', 'h_ack', [('replay', lines)], oracle)
    return ctx.finish()
