import struct
"""Shared pieces of the packet-level checks (C01 C02 C03 C04 C14): corpus of valid packets, mutators, TCP option correspondence."""
import json, os, re, struct
import common as C
import pktgen as G


def prepare(ctx, translators=('gen_accessors',)):
    st = C.run_translators(translators)
    ctx.notes['translators'] = st
    C.build_harness('h_pkt', extra_src=[os.path.join(C.BUILD, 'accessors_gen.h')])
    return st, json.load(open(os.path.join(C.BUILD, 'accessors.json')))


def env_dependent(view_line):
    """a top-level IPv4 layer whose source address is 0.0.0.0: serialize() replaces it by the address of the interface that
    routes to the destination (prepare_for_serialize), which depends on the machine (and throws invalid_interface without a
    route) - such packets are not judged on what serialize() does"""
    first = view_line[2:].split(' | ')[0] if view_line[:2] in ('P ', 'Q ') else ''
    return first.startswith('IP ') and ' src_addr=x00000000 ' in first + ' '


def ipv6_ext_packet(rng):
    """(bytes, chain) of a well-formed IPv6 packet with 1-3 extension headers (hop-by-hop, routing, destination options,
    authentication) in front of UDP or TCP with a valid checksum; chain = the next-header values in order"""
    import dissect as D
    k = rng.choice([1, 2, 2, 3, 3])
    types = [rng.choice([0, 43, 60, 51]) for _ in range(k)]
    if 0 in types:
        types = [0] + [t for t in types if t != 0][:k - 1]          # hop-by-hop goes first
    l4p = rng.choice([17, 6])
    pl = bytes(rng.randrange(256) for _ in range(rng.choice([0, 1, 8, 33])))
    src, dst = bytes(rng.randrange(256) for _ in range(16)), bytes(rng.randrange(256) for _ in range(16))
    l4 = (struct.pack('>HHHH', 1234, 53, 8 + len(pl), 0) + pl) if l4p == 17 else (struct.pack('>HHIIBBHHH', 1234, 80, 1, 2, 0x50, 0x18, 100, 0, 0) + pl)
    ck = 0xffff - D.csum16(src + dst + struct.pack('>IHBB', len(l4), 0, 0, l4p) + l4)
    ck = ck or 0xffff
    l4 = l4[:6] + struct.pack('>H', ck) + l4[8:] if l4p == 17 else l4[:16] + struct.pack('>H', ck) + l4[18:]
    ext = b''
    for j, t in enumerate(types):
        nxt = types[j + 1] if j + 1 < len(types) else l4p
        n8 = rng.choice([0, 0, 1]) if t != 51 else rng.choice([1, 2, 4])
        body = bytes([1, 6 + 8 * n8 - 2]) + bytes(6 + 8 * n8 - 2) if t not in (43, 51) else bytes([0, 0]) + bytes(rng.randrange(1, 256) for _ in range(4 + 8 * n8))
        ext += bytes([nxt, n8]) + body[:6 + 8 * n8]
    b = struct.pack('>IHBB', 6 << 28, len(ext) + len(l4), types[0], 64) + src + dst + ext + l4
    return b, types + [l4p]


def corpus(rng, n):
    """valid packets: built through the API and serialised by libtins; returns list of (entry_class, bytes, meta, build_lines)"""
    scripts, metas = [], {}
    for i in range(n):
        lines, meta = G.build(rng, i)
        scripts.append(('b%d' % i, lines))
        metas['b%d' % i] = (meta, lines)
    # every (outer, inner) pair of default-constructible classes: exercises every next-protocol tag table entry both ways
    try:
        acc = json.load(open(os.path.join(C.BUILD, 'accessors.json')))
        dflt = [c for c in acc['default_constructible'] if c in acc['from_buffer']]
    except Exception:
        dflt = []
    outers = [c for c in ('EthernetII', 'Dot1Q', 'SLL', 'SNAP', 'Loopback', 'IP', 'IPv6', 'PPPoE', 'MPLS', 'Dot3', 'LLC', 'UDP', 'IPSecAH', 'VXLAN') if c in dflt]
    k = 0
    for o in outers:
        for inner in dflt:
            sid = 'pair%d' % k
            k += 1
            if inner in ('PKTAP', 'PPI') or (o == 'VXLAN' and inner != 'EthernetII'):
                continue
            lines = ['new ' + o, 'push ' + inner] + (['set 0 src_addr 167772161'] if o == 'IP' else []) + (['set 0 next_header 253'] if o == 'IPv6' else []) + (['set 1 next_header 253'] if inner == 'IPv6' else []) + ([] if inner == 'STP' else ['raw x0102030405060708']) + ['ser']
            scripts.append((sid, lines))
            metas[sid] = ({'entry_class': o, 'stack': [o, inner], 'fields': [], 'payload': b'', 'entry': None}, lines)
    h = C.run_harness('h_pkt', scripts)
    out = []
    for sid, lines in scripts:
        o = [l for l in h.get(sid, []) if l.startswith('S ')]
        if o:
            out.append((metas[sid][0]['entry_class'], bytes.fromhex(o[-1].split()[2][1:]), metas[sid][0], lines))
    return out


def tcp_segment(rng, wild=False):
    """a TCP segment with a crafted option region"""
    region = bytearray()
    for _ in range(rng.randrange(0, 6)):
        r = rng.random()
        if r < 0.2:
            region.append(1)
        elif r < 0.27 and wild:
            region.append(0)
        else:
            kind = rng.choice([2, 3, 4, 5, 8, 8, 14, 30, 254, 255])
            n = rng.choice([0, 0, 1, 2, 4, 8, 10])
            ln = n + 2
            if wild and rng.random() < 0.2:
                ln = rng.choice([0, 1, n + 3, 255, n + 1])
            region += bytes([kind, ln & 0xff]) + bytes(rng.randrange(256) for _ in range(n))
    while len(region) % 4:
        region.append(0 if not wild or rng.random() < 0.8 else rng.randrange(256))
    if len(region) > 40:
        region = region[:40]
    doff = 5 + len(region) // 4
    if wild and rng.random() < 0.15:
        doff = rng.choice([0, 4, 5, 15, doff + 1, max(5, doff - 1)])
    hdr = struct.pack('>HHIIBBHHH', rng.randrange(65536), rng.randrange(65536), rng.randrange(1 << 32), rng.randrange(1 << 32),
                      ((doff & 15) << 4) | rng.randrange(2), rng.randrange(256), rng.randrange(65536), 0, rng.randrange(65536))
    payload = bytes(rng.randrange(256) for _ in range(rng.choice([0, 0, 1, 4, 20])))
    seg = hdr + bytes(region) + payload
    if wild and rng.random() < 0.2:
        seg = seg[:rng.randrange(0, len(seg) + 1)]
    return seg


def tcp_option_correspondence(ctx, rng, n, runner_ok=True):
    """Model.TcpOpts vs TCP(buffer) + serialize(): same acceptance, same option area, same header size"""
    segs = [tcp_segment(rng, wild=(i % 2 == 1)) for i in range(n)]
    hs = [('t%d' % i, ['parse TCP x' + s.hex(), 'ser']) for i, s in enumerate(segs)]
    ms = [('t%d' % i, ['tcpo x' + s.hex()]) for i, s in enumerate(segs)]
    h = C.run_harness('h_pkt', hs)
    m = C.run_model('tcpo', ms) if runner_ok else {}
    ctx.cov['evaluations'] += n
    bad = 0
    for i, s in enumerate(segs):
        sid = 't%d' % i
        lh = [l for l in h.get(sid, []) if not l.startswith('!~')]
        crash = [l for l in lh if l.startswith('!!')]
        if crash:
            ctx.violation('TCP parse/serialize: %s' % crash[0], '=== replay\n%s\n' % '\n'.join(hs[i][1]))
            bad += 1
            continue
        if not runner_ok:
            continue
        lm = m.get(sid, ['?'])[0]
        if lh and lh[0].startswith('E '):
            got = '-' + lh[0].split()[1]
        elif len(lh) >= 2 and lh[1].startswith('S '):
            y = bytes.fromhex(lh[1].split()[2][1:])
            hsz = (y[12] >> 4) * 4
            got = '%d x%s' % (hsz, y[20:hsz].hex())
        else:
            got = ' / '.join(lh)
        if got != lm:
            bad += 1
            if bad <= 2:
                ctx.violation('correspondence Model.TcpOpts <-> TCP codec broken: model "%s" vs C++ "%s"' % (lm[:120], got[:120]),
                              '=== replay\n%s\n--- model %s\n--- C++ %s\n' % ('\n'.join(hs[i][1]), lm, '\n'.join(lh)), has_input=False)
    ctx.cov['traces_validated_against_impl'] = ctx.cov.get('traces_validated_against_impl', 0) + (n if runner_ok else 0)
    return bad


def mutate(rng, b):
    b = bytearray(b)
    k = rng.random()
    if not b:
        return bytes(b)
    if k < 0.3:
        del b[rng.randrange(0, len(b)):]
    elif k < 0.6:
        for _ in range(rng.randrange(1, 4)):
            i = rng.randrange(len(b))
            b[i] = rng.choice([0, 1, 2, 4, 5, 0x0f, 0x40, 0x45, 0x7f, 0x80, 0xc0, 0xfe, 0xff, b[i] ^ (1 << rng.randrange(8))])
    elif k < 0.75:
        i = rng.randrange(len(b))
        b[i:i] = bytes(rng.randrange(256) for _ in range(rng.randrange(1, 5)))
    elif k < 0.9:
        i = rng.randrange(len(b))
        j = min(len(b), i + rng.randrange(1, 6))
        b[i:j] = bytes([0xff] * (j - i))
    else:
        b += bytes(rng.randrange(256) for _ in range(rng.randrange(1, 40)))
    return bytes(b)


FILE2ENTRY = {'arp': 'ARP', 'dhcp': 'DHCP', 'dhcpv6': 'DHCPv6', 'dns': 'DNS', 'dot1q': 'EthernetII', 'ethernetII': 'EthernetII', 'ethernet': 'EthernetII', 'icmp': 'ICMP',
              'icmpv6': 'ICMPv6', 'ip': 'IP', 'ipsec': 'EthernetII', 'ipv6': 'IPv6', 'llc': 'LLC', 'loopback': 'Loopback', 'mpls': 'EthernetII', 'pppoe': 'PPPoE',
              'radiotap': 'RadioTap', 'rsn_eapol': 'RSNEAPOL', 'rc4_eapol': 'RC4EAPOL', 'sll': 'SLL', 'snap': 'SNAP', 'stp': 'STP', 'tcp': 'TCP', 'udp': 'UDP',
              'rtp': 'RTP', 'vxlan': 'VXLAN', 'ppi': 'PPI', 'icmp_extension': 'IP', 'dot3': 'Dot3'}


def harvested_samples():
    """byte arrays found in the repository's own tests (tests/src/**/*.cpp): real, valid packets of ~50 protocols"""
    import glob, re
    out = []
    for f in sorted(glob.glob(os.path.join(C.REPO, 'tests', 'src', '**', '*.cpp'), recursive=True)):
        base = os.path.basename(f).replace('_test.cpp', '').replace('.cpp', '')
        txt = open(f, errors='replace').read()
        for m in re.finditer(r'uint8_t\s+[\w:]+\s*\[\s*\d*\s*\]\s*=\s*\{([^}]*)\}', txt):
            vals = re.findall(r'0x[0-9a-fA-F]+|\b\d+\b', m.group(1))
            try:
                b = bytes(int(v, 0) & 0xff for v in vals)
            except ValueError:
                continue
            if len(b) < 4:
                continue
            if '/dot11/' in f or base.startswith('dot11'):
                ent = ['Dot11::from_bytes']
            else:
                ent = [FILE2ENTRY[base]] if base in FILE2ENTRY else []
            out.append((ent, b, base))
    return out


def harvested_corpus(entries, max_per_entry=40):
    """(entry, bytes) pairs for which the current parser accepts a harvested sample; multi-layer results first"""
    samples = harvested_samples()
    scripts, idx = [], {}
    for i, (ent, b, base) in enumerate(samples):
        for e in entries:
            sid = 'h%d_%s' % (i, e)
            scripts.append((sid, ['parse %s x%s' % (e, b.hex())]))
            idx[sid] = (e, b, e in ent)
    h = C.run_harness('h_pkt', scripts)
    per = {}
    for sid, (e, b, named) in idx.items():
        o = [l for l in h.get(sid, []) if not l.startswith('!~')]
        if o and o[0].startswith('P ') and not any(l.startswith('!!') for l in o):
            depth = o[0].count(' | ')
            per.setdefault(e, []).append((-(2 if named else 0) - depth, b))
    out = []
    for e, lst in per.items():
        lst.sort(key=lambda t: t[0])
        for _, b in lst[:max_per_entry]:
            out.append((e, b))
    return out


def ip_packet(rng, wild=True):
    """an IPv4 packet with a crafted option region; often cut exactly at the end of the header"""
    region = bytearray()
    for _ in range(rng.randrange(0, 5)):
        r = rng.random()
        if r < 0.2:
            region.append(1)
        elif r < 0.25:
            region.append(0)
        else:
            t = rng.choice([7, 0x83, 0x89, 0x82, 0x88, 0x44, 0x94, 0x81, 0x21, 2, 30])
            n = rng.choice([0, 1, 2, 3, 4, 7, 9])
            ln = n + 2
            if wild and rng.random() < 0.35:
                ln = rng.choice([0, 1, n + 3, n + 4, n + 5, n + 6, 255, n + 1])
            region += bytes([t, ln & 0xff]) + bytes(rng.randrange(256) for _ in range(n))
    while len(region) % 4:
        region.append(rng.choice([0, 0, 1]))
    region = region[:40]
    ihl = 5 + len(region) // 4
    payload = bytes(rng.randrange(256) for _ in range(rng.choice([0, 0, 0, 1, 4, 8, 20])))
    tot = ihl * 4 + len(payload)
    proto = rng.choice([253, 253, 17, 6, 1, 0])
    hdr = struct.pack('>BBHHHBBHII', 0x40 | (ihl if not wild or rng.random() < 0.9 else rng.choice([0, 4, 15, ihl + 1])), rng.randrange(256),
                      tot if rng.random() < 0.8 else rng.choice([0, tot + 7, 20, 65535]), rng.randrange(65536), rng.choice([0, 0, 0x2000, 0x4000, 5]),
                      rng.randrange(256), proto, 0, rng.randrange(1 << 32), rng.randrange(1 << 32))
    return hdr + bytes(region) + payload


# ---- type-length-value option codecs (Model/TLV.v) ----
BEACON_HDR = bytes([0x80, 0]) + bytes(2) + b'\xff' * 6 + bytes([2, 0, 0, 0, 0, 1]) * 2 + bytes(2) + bytes(8) + struct.pack('<HH', 100, 0x0411)
TLV_FMTS = [
    # (model id, class, prefix(region) -> bytes, prefix length, script lines to prepare an API-built object, code octets, length octets, unit8)
    (0, 'DHCP', lambda r: bytes(236) + bytes([99, 130, 83, 99]), 240, [], 1, 1, False),
    (1, 'DHCPv6', lambda r: bytes([1, 1, 2, 3]), 4, ['set 0 msg_type 1'], 2, 2, False),
    (2, 'Dot11Beacon', lambda r: BEACON_HDR, 36, [], 1, 1, False),
    (3, 'ICMPv6', lambda r: bytes([134, 0, 0, 0, 64, 0, 0, 30, 0, 0, 0, 0, 0, 0, 0, 0]), 16, ['set 0 type 134'], 1, 1, True),
    (4, 'PPPoE', lambda r: bytes([0x11, 9, 0, 0]) + struct.pack('>H', len(r) & 0xffff), 6, ['set 0 code 9'], 2, 2, False),
]


def tlv_region(rng, cw, lw, unit8, valid):
    """a region of options (own encoder, written from the RFC layouts), plus the list it encodes"""
    out, opts = b'', []
    for _ in range(rng.randrange(0, 6)):
        code = rng.randrange(1, 255) if cw == 1 else rng.choice([rng.randrange(1, 300), rng.randrange(1 << 16), 0])      # 0: PPPoE End-Of-List, DHCPv6 reserved -- a tag like any other to the loop
        if unit8:
            ln = 8 * rng.randrange(1, 5) - 2
        else:
            ln = rng.choice([0, 1, 2, 3, 4, 7, 8, 17, 40] + ([255, 254] if lw == 1 else [256, 300]))
        data = bytes(rng.randrange(256) for _ in range(ln))
        cb = bytes([code]) if cw == 1 else struct.pack('>H', code)
        lb = (bytes([(ln + 2) // 8]) if unit8 else bytes([ln])) if lw == 1 else struct.pack('>H', ln)
        out += cb + lb + data
        opts.append((code, data))
    if not valid and out:
        k = rng.random()
        if k < 0.4:
            out = out[:rng.randrange(len(out))]
        elif k < 0.7:
            j = rng.randrange(len(out)); out = out[:j] + bytes([rng.choice([0, 1, 2, 255, out[j] ^ 0x80])]) + out[j + 1:]
        else:
            out += bytes(rng.randrange(256) for _ in range(rng.randrange(1, 4)))
    return out


def tlv_correspondence(ctx, rng, n, runner_ok=True):
    """Model.TLV vs the parsing constructors and write_serialization of DHCP, DHCPv6, Dot11Beacon, ICMPv6 (router advertisement) and
    PPPoE: (1) same acceptance and same option list for a region of octets, (2) the bytes written for the accepted options and
    (3) for options added through the API equal the model's encoding"""
    cases, hs, ms = [], [], []
    for i in range(n):
        fid, cls, pre, plen, prep, cw, lw, unit8 = TLV_FMTS[i % len(TLV_FMTS)]
        if i % 4 == 3:
            # a history of additions and removals (remove = first option with that code): the cached size and the bytes written
            ops, lines = [], ['new ' + cls] + prep
            pool = [rng.randrange(1, 255) if cw == 1 else rng.randrange(1, 1 << 16) for _ in range(3)]
            for _ in range(rng.randrange(1, 9)):
                c = rng.choice(pool)
                if rng.random() < 0.65 or cls == 'PPPoE':
                    ln = (8 * rng.randrange(1, 4) - 2) if unit8 else rng.choice([0, 1, 2, 5, 14, 40])
                    d = bytes(rng.randrange(256) for _ in range(ln))
                    ops.append('[0 %d x%s]' % (c, d.hex())); lines.append('aopt 0 %d x%s' % (c, d.hex()))
                else:
                    ops.append('[1 %d]' % c); lines.append('ropt 0 %d' % c)
            hs.append(('v%d' % i, lines + ['ser']))
            ms.append(('v%d' % i, ['hist %d [%s]' % (fid, ' '.join(ops))]))
            cases.append(('hist', fid, cls, plen, None))
        elif i % 3 == 2:
            # API-built: options added one by one, then serialized
            opts = []
            for _ in range(rng.randrange(0, 6)):
                code = rng.randrange(1, 255) if cw == 1 else rng.choice([rng.randrange(1, 300), rng.randrange(1 << 16)])
                ln = (8 * rng.randrange(1, 5) - 2) if (unit8 and rng.random() < 0.8) else rng.choice([0, 1, 2, 5, 6, 14, 40, 200])
                opts.append((code, bytes(rng.randrange(256) for _ in range(ln))))
            hs.append(('v%d' % i, ['new ' + cls] + prep + ['aopt 0 %d x%s' % (c, d.hex()) for c, d in opts] + ['ser']))
            ms.append(('v%d' % i, ['enc %d [%s]' % (fid, ' '.join('[%d x%s]' % (c, d.hex()) for c, d in opts))]))
            cases.append(('api', fid, cls, plen, opts))
        else:
            region = tlv_region(rng, cw, lw, unit8, valid=(rng.random() < 0.5))
            hs.append(('v%d' % i, ['parse %s x%s' % (cls, (pre(region) + region).hex()), 'ser']))
            ms.append(('v%d' % i, ['dec %d x%s' % (fid, region.hex())]))
            cases.append(('wire', fid, cls, plen, region))
    h = C.run_harness('h_pkt', hs)
    m = C.run_model('tlv', ms) if runner_ok else {}
    ctx.cov['evaluations'] += n
    optre = re.compile(r'\((\d+),(\d+),x([0-9a-f]*)\)')
    second, bad = [], 0

    def report(i, what, lm, lh):
        nonlocal bad
        bad += 1
        if bad <= 2:
            ctx.violation('correspondence Model.TLV <-> %s option codec broken: %s' % (cases[i][2], what[:200]),
                          '=== replay\n%s\n--- model script (runner tlv)\n%s\n--- model %s\n--- C++ %s\n' % ('\n'.join(hs[i][1]), '\n'.join(ms[i][1]), lm, '\n'.join(x[:400] for x in lh)), has_input=False)
    for i, (kind, fid, cls, plen, arg) in enumerate(cases):
        sid = 'v%d' % i
        lh = [l for l in h.get(sid, []) if not l.startswith('!~')]
        crash = [l for l in lh if l.startswith('!!')]
        if crash:
            ctx.violation('%s option codec: %s' % (cls, crash[0]), '=== replay\n%s\n' % '\n'.join(hs[i][1]))
            bad += 1
            continue
        if not runner_ok:
            continue
        lm = (m.get(sid) or ['?'])[0]
        if kind == 'hist':
            sline = [l for l in lh if l.startswith('S ')]
            if not sline:
                report(i, 'serialize after an add/remove history fails: %s' % (lh[-1] if lh else '<none>')[:80], lm, lh)
                continue
            t = sline[0].split()
            y = bytes.fromhex(t[2][1:])
            want = '%d x%s' % (int(t[1]) - plen, y[plen:].hex())
            if want != lm:
                report(i, 'after an add/remove history size() - %d = %s and the option area is %s; the model: %s' % (plen, t[1], y[plen:].hex()[:60], lm[:80]), lm, lh)
            continue
        if kind == 'api':
            sline = [l for l in lh if l.startswith('S ')]
            if not sline:
                continue            # an option the API refused / a size the layer cannot serialize: judged by C02/C04 themselves
            y = bytes.fromhex(sline[0].split()[2][1:])
            if 'x' + y[plen:].hex() != lm:
                report(i, 'options added through the API are written as %s, the model writes %s' % (y[plen:].hex()[:80], lm[:80]), lm, lh)
            continue
        if lh and lh[0].startswith('E '):
            got = '-' + lh[0].split()[1]
        elif lh and lh[0].startswith('P '):
            mm = re.search(r' (?:options|tags)=\{([^}]*)\}', lh[0].split(' | ')[0])
            got = '0 [' + ' '.join('[%s x%s]' % (a, c) for a, b, c in optre.findall(mm.group(1) if mm else '')) + ']'
        else:
            got = ' / '.join(lh)
        if got != lm:
            report(i, 'region %s: model "%s" vs C++ "%s"' % (arg.hex()[:60], lm[:100], got[:100]), lm, lh)
            continue
        if lm.startswith('0 ') and len(lh) > 1 and lh[1].startswith('S '):
            second.append((i, lm[2:], bytes.fromhex(lh[1].split()[2][1:])[plen:]))
    if runner_ok and second:
        m2 = C.run_model('tlv', [('w%d' % i, ['enc %d %s' % (cases[i][1], toks)]) for i, toks, _ in second])
        for i, toks, y in second:
            lm = (m2.get('w%d' % i) or ['?'])[0]
            if lm != 'x' + y.hex():
                report(i, 'accepted options are written back as %s, the model writes %s' % (y.hex()[:80], lm[:80]), lm, h.get('v%d' % i, []))
    ctx.cov['traces_validated_against_impl'] = ctx.cov.get('traces_validated_against_impl', 0) + (n if runner_ok else 0)
    return bad
