#!/bin/sh
# runs every claimed check (quick tier) on the current tree; regenerates all evidence files
cd "$(dirname "$0")"
for p in $(python3 -c "import json;print(' '.join(c['property_id'] for c in json.load(open('MANIFEST.json'))['checks']))"); do
  ./check $p --tier ${1:-quick} 2>/dev/null | grep -v "^KNOWN-FINDING" | tail -2
done
python3-vt - <<'PY'
import json, jsonschema, glob
sch = json.load(open('/root/.vp/EVIDENCE.schema.json'))
for f in sorted(glob.glob('evidence/C*.json')):
    e = json.load(open(f))
    try:
        jsonschema.validate(e, sch)
        c = e['coverage']
        ok = c['obligations'] == c['discharged'] and e.get('violations', 0) == 0
        print(f.split('/')[-1], 'valid', 'obl %d/%d' % (c['discharged'], c['obligations']), 'viol', e.get('violations'), '' if ok else '  <<< PROBLEM')
    except Exception as ex:
        print(f, 'INVALID', str(ex)[:200])
PY
