#!/bin/sh
# soak: every claimed check under several seeds (quick tier); prints one line per run.  Not registered in MANIFEST.
cd "$(dirname "$0")" || exit 2
ids=$(python3 -c "import json;print(' '.join(c['property_id'] for c in json.load(open('MANIFEST.json'))['checks']))")
for s in ${SEEDS:-1 2 3 5 8 13}; do
  for id in $ids; do
    out=$(VERIF_SEED=$s ./check $id --tier ${TIER:-quick} 2>&1); rc=$?
    echo "seed=$s $id rc=$rc $(echo "$out" | grep '^OK\|^VIOLATION\|^#\|Error\|error:' | head -3 | tr '\n' ' ' | cut -c1-400)"
  done
done
