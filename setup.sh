#!/bin/sh
# Offline setup after a fresh restore: sanitizer build of /repo, Coq development, extracted runner, harnesses.
cd /verif || exit 1
python3 - <<'PY'
import sys
sys.path.insert(0, '/verif/lib'); sys.path.insert(0, '/verif/translate'); sys.path.insert(0, '/verif/props')
import common as C, glob, os
C.ensure_repo_build()
import json
mf = json.load(open('/verif/MANIFEST.json'))
gens = set()
for f in glob.glob('/verif/translate/gen_*.py'):
    gens.add(os.path.basename(f)[:-3])
try:
    C.run_translators(('kernels',) + tuple(sorted(gens)))
except Exception as e:
    print('translator problem during setup:', e)
targets = [f[:-2] + '.vo' for f in C.coq_files()]
ok, out, st = C.coq_make(targets, timeout=3000)
print('coq build ok' if ok else out[-3000:])
try:
    C.build_runner()
except Exception as e:
    print('runner:', e)
for h in sorted(glob.glob('/verif/harness/h_*.cpp')):
    try:
        C.build_harness(os.path.basename(h)[:-4])
    except Exception as e:
        print('harness', h, str(e)[-2000:])
PY
