#!/usr/bin/env python3
"""cxx2gallina: translate small pure C++ functions of /repo (as clang-14 sees them
in the *current* working tree) into Gallina definitions over Z.

The fully typed clang JSON AST is used (implicit casts are explicit nodes), so the
translator inserts the unsigned wrap-around (`wrap w`) exactly where the C++ type
system narrows or wraps.  Grammar (anything else => Untranslatable):

  params            : integral / bool scalars
  statements        : DeclStmt of integral locals, if/else, return, `x = e`, `x op= e`,
                      `++x`/`x++`/`--x` as statements, compound blocks, `for` with literal trip count
  expressions       : + - * / % << >> & | ^ ~ ! && || < <= > >= == != ?: casts, integer/bool literals,
                      calls to other translated kernels, Endian::host_to_be/be_to_host (bswap),
                      Endian::host_to_le/le_to_host (identity on this little-endian host),
                      numeric_limits<T>::max()

Signed `int` intermediates stay unbounded in Z (C++ signed overflow is UB; the
kernels translated here only ever hold small ints there).
"""
import json, subprocess, sys, os, re, hashlib

REPO = os.environ.get('VERIF_REPO', '/repo')
CLANG_ARGS = ['clang++', '-std=c++11', '-I%s/include' % REPO, '-fsyntax-only',
              '-Wno-everything', '-Xclang', '-ast-dump=json']


class Untranslatable(Exception):
    pass


def ast_dump(src, flt):
    cmd = CLANG_ARGS + ['-Xclang', '-ast-dump-filter=' + flt, os.path.join(REPO, src)]
    p = subprocess.run(cmd, stdout=subprocess.PIPE, stderr=subprocess.PIPE, universal_newlines=True)
    if p.returncode != 0:
        raise Untranslatable('clang failed on %s: %s' % (src, p.stderr[-400:]))
    s = p.stdout
    dec = json.JSONDecoder()
    i = 0
    objs = []
    n = len(s)
    while i < n:
        while i < n and s[i].isspace():
            i += 1
        if i >= n:
            break
        o, j = dec.raw_decode(s, i)
        objs.append(o)
        i = j
    return objs


UNSIGNED = {
    'uint8_t': 8, 'uint16_t': 16, 'uint32_t': 32, 'uint64_t': 64,
    'unsigned char': 8, 'unsigned short': 16, 'unsigned int': 32, 'unsigned long': 64,
    'unsigned long long': 64, 'size_t': 64, 'std::size_t': 64, 'unsigned': 32,
    'std::uint8_t': 8, 'std::uint16_t': 16, 'std::uint32_t': 32, 'std::uint64_t': 64,
    'std::vector::size_type': 64, 'size_type': 64, '__uint32_t': 32, '__uint16_t': 16, '__uint8_t': 8, '__uint64_t': 64,
}
SIGNED = {'int': 32, 'short': 16, 'long': 64, 'long long': 64, 'int8_t': 8, 'int16_t': 16,
          'int32_t': 32, 'int64_t': 64, 'char': 8, 'signed char': 8, 'ptrdiff_t': 64}


def ctype(node_or_type):
    t = node_or_type
    if isinstance(t, dict):
        ty = t.get('type', {})
        q = ty.get('desugaredQualType') or ty.get('qualType', '')
        q0 = ty.get('qualType', '')
    else:
        q = q0 = t
    for cand in (q0, q):
        c = cand.replace('const ', '').replace('volatile ', '').replace(' const', '').replace('&', '').strip()
        if c == 'bool' or c == '_Bool':
            return ('b', 1)
        if c in UNSIGNED:
            return ('u', UNSIGNED[c])
        if c in SIGNED:
            return ('s', SIGNED[c])
    # enums are treated as ints
    return ('?', q0)


def ident(name):
    name = re.sub(r'[^A-Za-z0-9_]', '_', name)
    if name in ('end', 'at', 'in', 'as', 'return', 'match', 'with', 'fun', 'let', 'if', 'then', 'else', 'mod', 'Set', 'Type', 'Prop', 'fix', 'cofix', 'forall', 'exists', 'using', 'where', 'for'):
        name += '_'
    return name


class FnTranslator:
    def __init__(self, known_calls, src=None):
        self.known = known_calls  # C++ name -> gallina name
        self.notes = []
        self.src = src
        self.locals = set()
        self.globals = {}

    def resolve_global(self, name):
        if name in self.globals:
            return self.globals[name]
        if not self.src:
            raise Untranslatable('global ' + name)
        for o in ast_dump(self.src, name):
            stack = [o]
            while stack:
                n = stack.pop()
                if n.get('kind') == 'VarDecl' and n.get('name') == name and n.get('inner'):
                    try:
                        v = self.lit(n['inner'][0])
                        self.globals[name] = '(%s)' % v
                        return self.globals[name]
                    except Untranslatable:
                        pass
                stack.extend(c for c in n.get('inner', []) if isinstance(c, dict))
        raise Untranslatable('global %s has no literal initialiser' % name)

    # ---------- expressions -> Z terms ----------
    def wrap(self, ty, term):
        k, w = ty
        if k == 'u':
            return '(wrap %d %s)' % (w, term)
        if k == 'b':
            return term
        return term

    def as_bool(self, n):
        """Gallina term of type bool"""
        k = n['kind']
        if k in ('ParenExpr', 'ExprWithCleanups', 'ConstantExpr', 'MaterializeTemporaryExpr'):
            return self.as_bool(n['inner'][0])
        if k == 'ImplicitCastExpr' or k == 'CStyleCastExpr' or k == 'CXXStaticCastExpr' or k == 'CXXFunctionalCastExpr':
            ck = n.get('castKind')
            if ck == 'IntegralToBoolean':
                return '(negb (%s =? 0))' % self.as_Z(n['inner'][0])
            if ck in ('LValueToRValue', 'NoOp'):
                if ctype(n)[0] == 'b':
                    return self.as_bool(n['inner'][0])
        if k == 'BinaryOperator':
            op = n['opcode']
            a, b = n['inner']
            cmpops = {'==': '=?', '<': '<?', '<=': '<=?', '>': '>?', '>=': '>=?'}
            if op in cmpops:
                return '(%s %s %s)' % (self.as_Z(a), cmpops[op], self.as_Z(b))
            if op == '!=':
                return '(negb (%s =? %s))' % (self.as_Z(a), self.as_Z(b))
            if op == '&&':
                return '(%s && %s)' % (self.as_bool(a), self.as_bool(b))
            if op == '||':
                return '(%s || %s)' % (self.as_bool(a), self.as_bool(b))
        if k == 'UnaryOperator' and n['opcode'] == '!':
            return '(negb %s)' % self.as_bool(n['inner'][0])
        if k == 'CXXBoolLiteralExpr':
            return 'true' if n['value'] else 'false'
        if k == 'DeclRefExpr' and ctype(n)[0] == 'b':
            return '(negb (%s =? 0))' % ident(n['referencedDecl']['name'])
        if k == 'ConditionalOperator' and ctype(n)[0] == 'b':
            c, a, b = n['inner']
            return '(if %s then %s else %s)' % (self.as_bool(c), self.as_bool(a), self.as_bool(b))
        if k == 'CallExpr' and ctype(n)[0] == 'b':
            return '(negb (%s =? 0))' % self.as_Z(n)
        # fall back: integer in boolean context
        return '(negb (%s =? 0))' % self.as_Z(n)

    def callee_name(self, n):
        c = n['inner'][0]
        while c['kind'] in ('ImplicitCastExpr', 'ParenExpr'):
            c = c['inner'][0]
        if c['kind'] == 'DeclRefExpr':
            return c['referencedDecl']['name'], None
        if c['kind'] == 'MemberExpr':
            return c['name'], c
        raise Untranslatable('callee ' + c['kind'])

    def as_Z(self, n):
        k = n['kind']
        if k in ('ParenExpr', 'ExprWithCleanups', 'ConstantExpr', 'MaterializeTemporaryExpr', 'CXXBindTemporaryExpr'):
            return self.as_Z(n['inner'][0])
        if k == 'IntegerLiteral':
            return '(%s)' % n['value']
        if k == 'CharacterLiteral':
            return '(%s)' % n['value']
        if k == 'CXXBoolLiteralExpr':
            return '1' if n['value'] else '0'
        if k == 'DeclRefExpr':
            ref = n['referencedDecl']
            if ref.get('kind') == 'EnumConstantDecl':
                raise Untranslatable('enum constant ' + ref['name'])
            if ref['name'] not in self.locals:
                return self.resolve_global(ref['name'])
            return ident(ref['name'])
        if k in ('ImplicitCastExpr', 'CStyleCastExpr', 'CXXStaticCastExpr', 'CXXFunctionalCastExpr'):
            ck = n.get('castKind')
            sub = n['inner'][0]
            if ck in ('LValueToRValue', 'NoOp', 'FunctionToPointerDecay'):
                return self.as_Z(sub)
            if ck == 'IntegralCast':
                to = ctype(n)
                frm = ctype(sub)
                t = self.as_Z(sub)
                if to[0] == 'u':
                    try:
                        lv = int(self.lit(sub))
                        if 0 <= lv < 2 ** to[1]:
                            return '(%d)' % lv
                    except Untranslatable:
                        pass
                    if frm[0] == 'u' and frm[1] <= to[1]:
                        return t
                    if frm[0] == 'b':
                        return t
                    return '(wrap %d %s)' % (to[1], t)
                if to[0] == 's':
                    if frm[0] in ('u', 'b') and frm[1] < to[1]:
                        return t
                    if frm[0] == 's' and frm[1] <= to[1]:
                        return t
                    return '(swrap %d %s)' % (to[1], t)
                if to[0] == 'b':
                    return '(b2z (negb (%s =? 0)))' % t
                raise Untranslatable('cast to ' + str(to))
            if ck == 'IntegralToBoolean':
                return '(b2z %s)' % self.as_bool(n)
            raise Untranslatable('cast kind %s' % ck)
        if k == 'BinaryOperator':
            op = n['opcode']
            a, b = n['inner']
            ty = ctype(n)
            if op in ('==', '!=', '<', '<=', '>', '>=', '&&', '||'):
                return '(b2z %s)' % self.as_bool(n)
            A, B = self.as_Z(a), self.as_Z(b)
            if op == '+':
                return self.wrap(ty, '(%s + %s)' % (A, B))
            if op == '-':
                return self.wrap(ty, '(%s - %s)' % (A, B))
            if op == '*':
                return self.wrap(ty, '(%s * %s)' % (A, B))
            if op == '/':
                if ty[0] == 'u':
                    return '(%s / %s)' % (A, B)
                return '(Z.quot %s %s)' % (A, B)
            if op == '%':
                if ty[0] == 'u':
                    return '(%s mod %s)' % (A, B)
                return '(Z.rem %s %s)' % (A, B)
            if op == '<<':
                return self.wrap(ty, '(Z.shiftl %s %s)' % (A, B))
            if op == '>>':
                return '(Z.shiftr %s %s)' % (A, B)
            if op == '&':
                return '(Z.land %s %s)' % (A, B)
            if op == '|':
                return '(Z.lor %s %s)' % (A, B)
            if op == '^':
                return '(Z.lxor %s %s)' % (A, B)
            if op == ',':
                raise Untranslatable('comma')
            raise Untranslatable('binop ' + op)
        if k == 'UnaryOperator':
            op = n['opcode']
            a = n['inner'][0]
            ty = ctype(n)
            if op == '-':
                return self.wrap(ty, '(- %s)' % self.as_Z(a))
            if op == '+':
                return self.as_Z(a)
            if op == '~':
                if ty[0] == 'u':
                    return '(wrap %d (Z.lnot %s))' % (ty[1], self.as_Z(a))
                return '(Z.lnot %s)' % self.as_Z(a)
            if op == '!':
                return '(b2z %s)' % self.as_bool(n)
            raise Untranslatable('unop ' + op)
        if k == 'ConditionalOperator':
            c, a, b = n['inner']
            return '(if %s then %s else %s)' % (self.as_bool(c), self.as_Z(a), self.as_Z(b))
        if k == 'CallExpr':
            name, mem = self.callee_name(n)
            args = n['inner'][1:]
            if name in ('host_to_be', 'be_to_host'):
                w = ctype(n)
                if w[0] != 'u':
                    raise Untranslatable('endian call on ' + str(w))
                if w[1] == 8:
                    return self.as_Z(args[0])
                return '(bswap %d %s)' % (w[1], self.as_Z(args[0]))
            if name in ('host_to_le', 'le_to_host'):
                return self.as_Z(args[0])
            if name == 'max' and not args:
                ty = ctype(n)
                if ty[0] == 'u':
                    return '(%d)' % (2 ** ty[1] - 1)
            if name in self.known:
                return '(%s %s)' % (self.known[name], ' '.join(self.as_Z(a) for a in args))
            raise Untranslatable('call to ' + name)
        raise Untranslatable('expr kind ' + k)

    # ---------- statements ----------
    def assigned_vars(self, stmts):
        out = []

        def walk(n):
            k = n.get('kind')
            if k in ('BinaryOperator', 'CompoundAssignOperator') and (n.get('opcode', '') == '=' or k == 'CompoundAssignOperator'):
                lhs = n['inner'][0]
                if lhs['kind'] == 'DeclRefExpr':
                    v = ident(lhs['referencedDecl']['name'])
                    if v not in out:
                        out.append(v)
            if k == 'UnaryOperator' and n.get('opcode') in ('++', '--'):
                lhs = n['inner'][0]
                if lhs['kind'] == 'DeclRefExpr':
                    v = ident(lhs['referencedDecl']['name'])
                    if v not in out:
                        out.append(v)
            for c in n.get('inner', []):
                walk(c)
        for s in stmts:
            walk(s)
        return out

    def has_return(self, n):
        if n.get('kind') == 'ReturnStmt':
            return True
        return any(self.has_return(c) for c in n.get('inner', []))

    def always_returns(self, stmts):
        for s in stmts:
            k = s['kind']
            if k == 'ReturnStmt':
                return True
            if k == 'CompoundStmt' and self.always_returns(s.get('inner', [])):
                return True
            if k == 'IfStmt':
                parts = s['inner']
                if len(parts) == 3 and self.always_returns([parts[1]]) and self.always_returns([parts[2]]):
                    return True
        return False

    def flat(self, s):
        if s['kind'] == 'CompoundStmt':
            return s.get('inner', [])
        return [s]

    def stmts(self, ss, cont):
        """translate statement list; cont() gives the term for 'falls off the end'"""
        if not ss:
            return cont()
        s, rest = ss[0], ss[1:]
        k = s['kind']
        if k == 'CompoundStmt':
            return self.stmts(s.get('inner', []) + rest, cont)
        if k == 'NullStmt':
            return self.stmts(rest, cont)
        if k == 'ReturnStmt':
            if not s.get('inner'):
                return cont()
            e = s['inner'][0]
            if ctype(e)[0] == 'b':
                return '(b2z %s)' % self.as_bool(e)
            return self.as_Z(e)
        if k == 'DeclStmt':
            term_rest = None
            decls = s['inner']
            # nest lets
            def go(i):
                if i == len(decls):
                    return self.stmts(rest, cont)
                d = decls[i]
                if d['kind'] != 'VarDecl':
                    raise Untranslatable('decl ' + d['kind'])
                ty = ctype(d)
                if ty[0] == '?':
                    raise Untranslatable('local of type ' + str(ty[1]))
                if d.get('inner'):
                    init = d['inner'][0]
                    v = ('(b2z %s)' % self.as_bool(init)) if ty[0] == 'b' else self.as_Z(init)
                else:
                    v = '0'
                self.locals.add(d['name'])
                return '(let %s := %s in\n  %s)' % (ident(d['name']), v, go(i + 1))
            return go(0)
        if k == 'IfStmt':
            parts = s['inner']
            c = self.as_bool(parts[0])
            th = self.flat(parts[1])
            el = self.flat(parts[2]) if len(parts) > 2 else []
            if self.always_returns(th):
                return '(if %s then %s else %s)' % (c, self.stmts(th, cont), self.stmts(el + rest, cont))
            if el and self.always_returns(el):
                return '(if %s then %s else %s)' % (c, self.stmts(th + rest, cont), self.stmts(el, cont))
            if self.has_return(parts[1]) or (len(parts) > 2 and self.has_return(parts[2])):
                # duplicate the continuation (small functions only)
                return '(if %s then %s else %s)' % (c, self.stmts(th + rest, cont), self.stmts(el + rest, cont))
            vs = self.assigned_vars(th + el)
            if not vs:
                return self.stmts(rest, cont)
            tup = vs[0] if len(vs) == 1 else '(' + ', '.join(vs) + ')'
            pat = vs[0] if len(vs) == 1 else "'(" + ', '.join(vs) + ')'
            a = self.stmts(th, lambda: tup)
            b = self.stmts(el, lambda: tup)
            return '(let %s := (if %s then %s else %s) in\n  %s)' % (pat, c, a, b, self.stmts(rest, cont))
        if k in ('BinaryOperator', 'CompoundAssignOperator') and s['inner'][0]['kind'] == 'DeclRefExpr':
            lhs, rhs = s['inner']
            v = ident(lhs['referencedDecl']['name'])
            ty = ctype(lhs)
            if k == 'BinaryOperator':
                if s['opcode'] != '=':
                    raise Untranslatable('statement binop ' + s['opcode'])
                val = ('(b2z %s)' % self.as_bool(rhs)) if ty[0] == 'b' else self.as_Z(rhs)
            else:
                op = s['opcode'][:-1]
                # computation type
                cty = s.get('computeResultType', {}).get('qualType')
                cty = ctype(cty) if cty else ty
                fake = {'kind': 'BinaryOperator', 'opcode': op, 'type': {'qualType': s['computeResultType']['qualType']},
                        'inner': [{'kind': 'ImplicitCastExpr', 'castKind': 'IntegralCast' if ctype(s['computeLHSType']['qualType']) != ty else 'NoOp',
                                   'type': {'qualType': s['computeLHSType']['qualType']}, 'inner': [lhs]}, rhs]}
                val = self.as_Z(fake)
                if cty != ty and ty[0] == 'u':
                    val = '(wrap %d %s)' % (ty[1], val)
            return '(let %s := %s in\n  %s)' % (v, val, self.stmts(rest, cont))
        if k == 'UnaryOperator' and s['opcode'] in ('++', '--') and s['inner'][0]['kind'] == 'DeclRefExpr':
            lhs = s['inner'][0]
            v = ident(lhs['referencedDecl']['name'])
            ty = ctype(lhs)
            val = self.wrap(ty, '(%s %s 1)' % (v, '+' if s['opcode'] == '++' else '-'))
            return '(let %s := %s in\n  %s)' % (v, val, self.stmts(rest, cont))
        if k == 'ForStmt':
            return self.for_loop(s, rest, cont)
        raise Untranslatable('stmt kind ' + k)

    def for_loop(self, s, rest, cont):
        init, _, cond, inc, body = s['inner']
        # for (T i = a; i < b; ++i) with literal a, b
        try:
            d = init['inner'][0]
            var = d['name']
            self.locals.add(var)
            a = int(self.lit(d['inner'][0]))
            assert cond['kind'] == 'BinaryOperator' and cond['opcode'] in ('<', '<=', '!=')
            b = int(self.lit(cond['inner'][1]))
            if cond['opcode'] == '<=':
                b += 1
            assert inc['kind'] == 'UnaryOperator' and inc['opcode'] == '++'
        except Exception as e:
            raise Untranslatable('for loop shape')
        if self.has_return(body):
            raise Untranslatable('return inside for')
        unrolled = []
        for i in range(a, b):
            unrolled.append(('bind', var, i))
            unrolled.append(body)
        # translate by textual let-binding of the loop variable
        def go(i):
            if i >= b:
                return self.stmts(rest, cont)
            return '(let %s := %d in\n  %s)' % (ident(var), i, self.stmts(self.flat(body), lambda: go(i + 1)))
        return go(a)

    def lit(self, n):
        while n['kind'] in ('ImplicitCastExpr', 'ParenExpr', 'ConstantExpr'):
            n = n['inner'][0]
        if n['kind'] == 'IntegerLiteral':
            return n['value']
        raise Untranslatable('not a literal')

    def function(self, decl, gname):
        params = [c for c in decl.get('inner', []) if c['kind'] == 'ParmVarDecl']
        body = [c for c in decl.get('inner', []) if c['kind'] == 'CompoundStmt']
        if not body:
            raise Untranslatable('no body')
        for p in params:
            self.locals.add(p.get('name'))
            if ctype(p)[0] == '?':
                raise Untranslatable('param %s of type %s' % (p.get('name'), ctype(p)[1]))
        term = self.stmts(body[0].get('inner', []), lambda: '0')
        ps = ' '.join(ident(p['name']) for p in params)
        sig = ', '.join('%s:%s' % (p.get('name'), p['type']['qualType']) for p in params)
        hdr = '(* %s (%s) -> %s *)\n' % (decl['name'], sig, decl['type']['qualType'].split('(')[0].strip())
        return hdr + 'Definition %s %s : Z :=\n  %s.\n' % (gname, ('(%s : Z)' % ps) if ps else '', term)


def find_decl(objs, name, nparams=None, param_types=None, parent=None):
    cands = []

    def walk(n):
        if n.get('kind') in ('FunctionDecl', 'CXXMethodDecl') and n.get('name') == name \
                and any(c['kind'] == 'CompoundStmt' for c in n.get('inner', [])):
            cands.append(n)
        for c in n.get('inner', []):
            if isinstance(c, dict):
                walk(c)
    for o in objs:
        walk(o)
    out = []
    for c in cands:
        ps = [p for p in c.get('inner', []) if p['kind'] == 'ParmVarDecl']
        if nparams is not None and len(ps) != nparams:
            continue
        if param_types is not None and [p['type']['qualType'] for p in ps] != param_types:
            continue
        out.append(c)
    if not out:
        raise Untranslatable('no definition of %s found' % name)
    # de-duplicate identical ids
    return out[0]


def translate_kernels(spec, out_path):
    """spec: list of dicts {src, filter, name, gname, nparams?, param_types?}"""
    known = {}
    chunks = []
    status = []
    cache = {}
    for k in spec:
        key = (k['src'], k['filter'])
        try:
            if key not in cache:
                cache[key] = ast_dump(k['src'], k['filter'])
            decl = find_decl(cache[key], k['name'], k.get('nparams'), k.get('param_types'))
            tr = FnTranslator(known, k['src'])
            text = tr.function(decl, k['gname'])
            chunks.append(text)
            known[k['name']] = k['gname']
            status.append({'kernel': k['gname'], 'ok': True})
        except Untranslatable as e:
            status.append({'kernel': k['gname'], 'ok': False, 'why': str(e)})
            chunks.append('(* UNTRANSLATABLE %s: %s *)\n' % (k['gname'], e))
    header = ('(* GENERATED by translate/cxx2gallina.py from %s -- do not edit *)\n'
              'From Coq Require Import ZArith Bool.\nFrom LT Require Import Base.CInt.\nLocal Open Scope Z_scope.\nLocal Open Scope bool_scope.\n\n') % REPO
    text = header + '\n'.join(chunks)
    old = None
    if os.path.exists(out_path):
        old = open(out_path).read()
    if old != text:
        with open(out_path, 'w') as f:
            f.write(text)
    return status


if __name__ == '__main__':
    import importlib.util
    here = os.path.dirname(os.path.abspath(__file__))
    spec = json.load(open(os.path.join(here, 'kernels.json')))
    st = translate_kernels(spec, os.path.join(here, '..', 'coq', 'Gen', 'Kernels.v'))
    json.dump(st, sys.stdout, indent=1)
    print()
    sys.exit(0 if all(s['ok'] for s in st) else 2)
