#!/usr/bin/env python3
"""Accessor translator: scans every PDU class of /repo (clang-14 JSON AST of the CURRENT headers) for its public
zero-argument const getters and one-argument setters (own and inherited) and generates

  build/accessors_gen.h    describe(const PDU&) : prints every getter of every layer of a packet (the "view"),
                           set_field(PDU&, class, field, value) : calls a setter by name,
  build/accessors.json     the (class, field, getter?, setter?, parameter type) table for the generators.
"""
import os, sys, json, subprocess, re
from concurrent.futures import ThreadPoolExecutor
sys.path.insert(0, os.path.dirname(os.path.abspath(__file__)))
import gen_classtable as GC

V = os.environ.get('VERIF_ROOT') or os.path.dirname(os.path.dirname(os.path.abspath(__file__)))
REPO = os.environ.get('VERIF_REPO', '/repo')
BL_GET = {'header_size', 'trailer_size', 'size', 'pdu_type', 'clone', 'advertised_size', 'inner_pdu', 'parent_pdu',
          'matches_flag', 'serialize', 'begin', 'end', 'send', 'recv_response'}
BL_SET = {('RawPDU', 'payload')}
EXTRA_CLASSES = ['Dot11ManagementFrame', 'Dot11ControlTA', 'EAPOL']


def ast_for(cls):
    tu = os.path.join(V, 'build', 'tu_all.cpp')
    cmd = ['clang++', '-std=c++11', '-I%s/include' % REPO, '-I%s/build/asan/include' % V, '-fsyntax-only', '-Wno-everything',
           '-Xclang', '-ast-dump=json', '-Xclang', '-ast-dump-filter=Tins::' + cls, tu]
    p = subprocess.run(cmd, stdout=subprocess.PIPE, stderr=subprocess.PIPE, universal_newlines=True)
    s = p.stdout
    dec = json.JSONDecoder()
    i, n = 0, len(s)
    out = None
    while i < n:
        while i < n and s[i].isspace():
            i += 1
        if i >= n:
            break
        o, j = dec.raw_decode(s, i)
        i = j
        if o.get('kind') == 'CXXRecordDecl' and o.get('name') == cls and o.get('completeDefinition') and out is None:
            out = o
    if out is None:
        return cls, None
    bases = []
    for b in out.get('bases', []):
        q = b['type']['qualType'].replace('Tins::', '')
        bases.append(q)
    methods = []
    ctors = []
    acc = 'private'
    for c in out.get('inner', []):
        k = c.get('kind')
        if k == 'AccessSpecDecl':
            acc = c['access']
        elif k == 'CXXMethodDecl' and acc == 'public' and not c.get('isImplicit'):
            qt = c['type']['qualType']
            params = [p['type']['qualType'] for p in c.get('inner', []) if p.get('kind') == 'ParmVarDecl']
            methods.append({'name': c['name'], 'type': qt, 'params': params, 'static': c.get('storageClass') == 'static'})
        elif k == 'CXXConstructorDecl' and acc == 'public' and not c.get('isImplicit'):
            ps = [p for p in c.get('inner', []) if p.get('kind') == 'ParmVarDecl']
            ctors.append({'params': [p['type']['qualType'] for p in ps], 'ndefault': sum(1 for p in ps if p.get('init') or any(x.get('kind', '').endswith('Expr') or x.get('kind', '').endswith('Literal') for x in p.get('inner', [])))})
    # nested public structs (typed option values): public data members and whether they can be default-constructed
    nested = []
    acc = 'private'
    for c in out.get('inner', []):
        k = c.get('kind')
        if k == 'AccessSpecDecl':
            acc = c['access']
        elif k == 'CXXRecordDecl' and acc == 'public' and c.get('completeDefinition') and c.get('name') and not c.get('isImplicit'):
            facc = 'public' if c.get('tagUsed') == 'struct' else 'private'
            fields, nctors, dflt_ok = [], 0, False
            for m in c.get('inner', []):
                mk = m.get('kind')
                if mk == 'AccessSpecDecl':
                    facc = m['access']
                elif mk == 'FieldDecl' and facc == 'public' and m.get('name') and not m.get('isBitfield'):
                    fields.append(m['name'])
                elif mk == 'CXXConstructorDecl' and not m.get('isImplicit'):
                    ps = [q for q in m.get('inner', []) if q.get('kind') == 'ParmVarDecl']
                    nd = sum(1 for q in ps if q.get('init') or any(x.get('kind', '').endswith('Expr') or x.get('kind', '').endswith('Literal') for x in q.get('inner', [])))
                    nctors += 1
                    if facc == 'public' and len(ps) - nd <= 0:
                        dflt_ok = True
            packed = any(m.get('kind') == 'PackedAttr' for m in c.get('inner', []))
            if fields and (dflt_ok or nctors == 0) and not packed:
                nested.append({'name': c['name'], 'fields': fields})
    return cls, {'bases': bases, 'methods': methods, 'ctors': ctors, 'abstract': bool(out.get('definitionData', {}).get('isAbstract')), 'nested': nested}


def collect():
    scanned = GC.scan_classes()
    classes = [c[0] for c in scanned]
    for e in EXTRA_CLASSES:
        if e not in classes:
            classes.append(e)
    os.makedirs(os.path.join(V, 'build'), exist_ok=True)
    incs = ''.join('#include <%s>\n' % h for h in sorted(set(c[1] for c in scanned)))
    open(os.path.join(V, 'build', 'tu_all.cpp'), 'w').write('#include <tins/tins.h>\n#include <tins/pdu_cacher.h>\n' + incs)
    open(os.path.join(V, 'build', 'accessors_includes.h'), 'w').write('#pragma once\n#include <tins/tins.h>\n' + incs)
    with ThreadPoolExecutor(16) as ex:
        res = dict(ex.map(ast_for, classes))
    return classes, res


def accessors_of(cls, res, seen=None):
    """own + inherited getters/setters"""
    seen = seen or set()
    info = res.get(cls)
    if not info or cls in seen:
        return {}, {}
    seen.add(cls)
    getters, setters = {}, {}
    for b in info['bases']:
        if b in res:
            g, s = accessors_of(b, res, seen)
            getters.update(g); setters.update(s)
    own_setters = {}
    for m in info['methods']:
        if m['static'] or m['name'].startswith('operator') or m['name'].startswith('~'):
            continue
        t = m['type']
        ret = t.split('(')[0].strip()
        is_const = t.rstrip().endswith('const')
        if not m['params'] and is_const and ret != 'void' and m['name'] not in BL_GET:
            getters[m['name']] = ret
        if len(m['params']) == 1 and ret == 'void' and not is_const:
            own_setters.setdefault(m['name'], []).append(m['params'][0])
    for n, ps in own_setters.items():
        if (cls, n) in BL_SET:
            continue
        if len(ps) == 1:
            setters[n] = ps[0]
        elif n in setters:
            del setters[n]
    # set_x / get_x pairs (VXLAN): the value is shown under the setter's name as well, so that it pairs like the others
    for n in list(setters):
        if n.startswith('set_') and ('get_' + n[4:]) in getters and n not in getters:
            getters[n] = getters['get_' + n[4:]] + ' @get_' + n[4:]
    return getters, setters


HEADER = r'''// GENERATED by translate/gen_accessors.py from the current headers -- do not edit
#pragma once
#include "accessors_includes.h"
#include <sstream>
#include <string>
#include <type_traits>
#include <vector>
#include <typeinfo>
#include <list>
#include <cstring>
#include <stdexcept>
namespace vacc {
using namespace Tins;
inline std::string hx(const uint8_t* p, size_t n) { static const char* d = "0123456789abcdef"; std::string s = "x"; for (size_t i = 0; i < n; ++i) { s += d[p[i] >> 4]; s += d[p[i] & 15]; } return s; }

// ---- value printing (anything unknown prints "?") ----
template <class T> typename std::enable_if<std::is_integral<T>::value, std::string>::type to_str(T v) { return std::to_string((unsigned long long)(typename std::make_unsigned<T>::type)v); }
inline std::string to_str(bool v) { return v ? "1" : "0"; }
template <class T> typename std::enable_if<std::is_enum<T>::value, std::string>::type to_str(T v) { return std::to_string((unsigned long long)v); }
template <size_t n> std::string to_str(const small_uint<n>& v) { return std::to_string((unsigned long long)(typename small_uint<n>::repr_type)v); }
inline std::string to_str(const IPv4Address& a) { uint32_t v = a; return hx((const uint8_t*)&v, 4); }
inline std::string to_str(const IPv6Address& a) { return hx(a.begin(), 16); }
template <size_t n> std::string to_str(const HWAddress<n>& a) { return hx(a.begin(), n); }
inline std::string to_str(const std::string& s) { return hx((const uint8_t*)s.data(), s.size()); }
inline std::string to_str(const std::vector<uint8_t>& v) { return hx(v.data(), v.size()); }
template <class T> typename std::enable_if<std::is_integral<T>::value || std::is_enum<T>::value, unsigned long long>::type opt_id(T v) { return (unsigned long long)v; }
template <class T> typename std::enable_if<!(std::is_integral<T>::value || std::is_enum<T>::value), unsigned long long>::type opt_id(const T& v) { uint8_t b = 0; memcpy(&b, &v, 1); return b; }
template <class O, class P> std::string to_str(const PDUOption<O, P>& o) {
    return "(" + std::to_string(opt_id(o.option())) + "," + std::to_string((unsigned long long)o.length_field()) + "," + hx(o.data_ptr(), o.data_size()) + ")";
}
//@STRUCT_FWD@
// RFC 4884 extension structure of ICMP / ICMPv6: (class, type, payload) per object
inline std::string to_str(const ICMPExtension& e) { return "(" + std::to_string((unsigned)e.extension_class()) + "," + std::to_string((unsigned)e.extension_type()) + "," + hx(e.payload().data(), e.payload().size()) + ")"; }
inline std::string to_str(const ICMPExtensionsStructure& s) {
    std::string r = "{"; bool f = true;
    for (ICMPExtensionsStructure::extensions_type::const_iterator it = s.extensions().begin(); it != s.extensions().end(); ++it) { if (!f) r += ";"; f = false; r += to_str(*it); }
    return r + "}";
}
template <class T> std::string to_str(const std::vector<T>& v);
template <class T> std::string to_str(const std::list<T>& v);
template <class A, class B> std::string to_str(const std::pair<A, B>& p);
inline std::string to_str_fallback(...) { return "?"; }
template <class T> auto to_str_any(const T& v, int) -> decltype(to_str(v)) { return to_str(v); }
template <class T> std::string to_str_any(const T&, long) { return "?"; }
template <class T> std::string to_str(const std::vector<T>& v) { std::string s = "{"; for (size_t i = 0; i < v.size(); ++i) { if (i) s += ";"; s += to_str_any(v[i], 0); } return s + "}"; }
template <class T> std::string to_str(const std::list<T>& v) { std::string s = "{"; bool f = true; for (typename std::list<T>::const_iterator it = v.begin(); it != v.end(); ++it) { if (!f) s += ";"; f = false; s += to_str_any(*it, 0); } return s + "}"; }
template <class A, class B> std::string to_str(const std::pair<A, B>& p) { return "<" + to_str_any(p.first, 0) + "," + to_str_any(p.second, 0) + ">"; }

inline int exc_code(const std::exception& e) {
    if (dynamic_cast<const malformed_packet*>(&e)) return 1;
    if (dynamic_cast<const option_not_found*>(&e)) return 3;
    if (dynamic_cast<const field_not_present*>(&e)) return 4;
    if (dynamic_cast<const malformed_option*>(&e)) return 11;
    if (dynamic_cast<const exception_base*>(&e)) return 90;
    return 99;
}
#define VACC_GET_AS(os, p, getter, label) do { os << " " #label "="; try { os << to_str_any((p).getter(), 0); } catch (const std::exception& e) { os << "!" << exc_code(e); } } while (0)
#define VACC_GET(os, p, name) do { os << " " #name "="; try { os << to_str_any((p).name(), 0); } catch (const std::exception& e) { os << "!" << exc_code(e); } } while (0)

// ---- value construction for setters ----
template <class T, class E = void> struct conv { static const int kind = 0; static T from(uint64_t) { throw std::logic_error("unsupported setter argument type"); } };
template <class T> struct conv<T, typename std::enable_if<std::is_integral<T>::value>::type> { static const int kind = 1; static const int bits = std::is_same<T, bool>::value ? 1 : 8 * sizeof(T); static T from(uint64_t v) { return (T)v; } };
template <class T> struct conv<T, typename std::enable_if<std::is_enum<T>::value>::type> { static const int kind = 2; static const int bits = 8 * sizeof(T); static T from(uint64_t v) { return (T)v; } };
template <size_t n> struct conv<small_uint<n>, void> { static const int kind = 3; static const int bits = n; static small_uint<n> from(uint64_t v) { return small_uint<n>((typename small_uint<n>::repr_type)v); } };
template <> struct conv<IPv4Address, void> { static const int kind = 4; static const int bits = 32; static IPv4Address from(uint64_t v) { return IPv4Address(Endian::host_to_be((uint32_t)v)); } };
template <> struct conv<IPv6Address, void> { static const int kind = 5; static const int bits = 128; static IPv6Address from(uint64_t v) { uint8_t b[16]; for (int i = 0; i < 16; ++i) b[i] = (uint8_t)((v >> (8 * (i % 8))) + i); return IPv6Address(b); } };
template <size_t n> struct conv<HWAddress<n>, void> { static const int kind = 6; static const int bits = 8 * n; static HWAddress<n> from(uint64_t v) { uint8_t b[n]; for (size_t i = 0; i < n; ++i) b[i] = (uint8_t)(v >> (8 * ((n - 1 - i) % 8))); return HWAddress<n>(b); } };
// structured values (typed options): everything is derived from the one 64-bit script value
inline uint64_t mix(uint64_t v, uint64_t i) { uint64_t z = v + 0x9e3779b97f4a7c15ULL * (i + 1); z = (z ^ (z >> 30)) * 0xbf58476d1ce4e5b9ULL; z = (z ^ (z >> 27)) * 0x94d049bb133111ebULL; return z ^ (z >> 31); }
static thread_local int g_len_hint = -1, g_str_hint = -1;
template <> struct conv<std::vector<uint8_t>, void> { static const int kind = 8; static const int bits = 64; static std::vector<uint8_t> from(uint64_t v) { std::vector<uint8_t> b(g_len_hint >= 0 ? (size_t)g_len_hint : v % 23); for (size_t i = 0; i < b.size(); ++i) b[i] = (uint8_t)mix(v, i); return b; } };
// inside a struct, two values in three give all member containers one common length (setters such as country() demand it), and one in three
// gives member strings the length 3 (country codes)
template <> struct conv<std::string, void> { static const int kind = 8; static const int bits = 64; static std::string from(uint64_t v) { std::string b(g_str_hint >= 0 ? (size_t)g_str_hint : v % 17, 'a'); for (size_t i = 0; i < b.size(); ++i) b[i] = (char)('a' + mix(v, i) % 26); return b; } };
template <class T> struct elem_from { static T get(uint64_t v) { return conv<T>::kind == 2 ? conv<T>::from(v % 4) : conv<T>::from(v); } };
template <size_t n> struct elem_from<small_uint<n> > { static small_uint<n> get(uint64_t v) { return conv<small_uint<n> >::from(v & ((1ULL << n) - 1)); } };
template <class T> struct conv<std::vector<T>, void> { static const int kind = conv<T>::kind > 0 ? 9 : 0; static const int bits = 64; static std::vector<T> from(uint64_t v) { std::vector<T> r; size_t n = g_len_hint >= 0 ? (size_t)g_len_hint : v % 4; for (size_t i = 0; i < n; ++i) r.push_back(elem_from<T>::get(mix(v, i))); return r; } };
template <class T> struct conv<std::list<T>, void> { static const int kind = conv<T>::kind > 0 ? 9 : 0; static const int bits = 64; static std::list<T> from(uint64_t v) { std::list<T> r; for (size_t i = 0; i < v % 4; ++i) r.push_back(elem_from<T>::get(mix(v, i))); return r; } };
template <class A, class B> struct conv<std::pair<A, B>, void> { static const int kind = (conv<A>::kind > 0 && conv<B>::kind > 0) ? 9 : 0; static const int bits = 64; static std::pair<A, B> from(uint64_t v) { return std::pair<A, B>(elem_from<A>::get(mix(v, 1)), elem_from<B>::get(mix(v, 2))); } };
template <class T> void fill(T& f, uint64_t v) { if (conv<T>::kind > 0) f = elem_from<T>::get(v); }
template <class T, size_t N> void fill(T (&f)[N], uint64_t v) { for (size_t i = 0; i < N; ++i) fill(f[i], mix(v, i)); }
//@STRUCT_CONV@
template <class O, class B, class A> bool call_setter(O& obj, void (B::*m)(A), uint64_t v) {
    B& b = obj;
    (b.*m)(conv<typename std::decay<A>::type>::from(v));
    return true;
}
template <class B, class A> std::string value_str(void (B::*)(A), uint64_t v) {
    typedef typename std::decay<A>::type T;
    if (conv<T>::kind == 0) return "?";
    return to_str_any(conv<T>::from(v), 0);
}
template <class T, class E = void> struct bits_of { static const int value = 0; };
template <class T> struct bits_of<T, typename std::enable_if<(conv<T>::kind > 0)>::type> { static const int value = conv<T>::bits; };
template <class B, class A> void describe_setter(std::ostream& os, const char* cls, const char* field, void (B::*)(A)) {
    typedef typename std::decay<A>::type T;
    os << cls << " " << field << " " << conv<T>::kind << " " << bits_of<T>::value << "\n";
}
'''


def generate(gen_dir=None):
    classes, res = collect()
    missing = [c for c in classes if res.get(c) is None]
    table = {}
    structs = []
    for c in classes:
        for n in (res.get(c) or {}).get('nested', []):
            structs.append(('%s::%s' % (c, n['name']), n['fields']))
    fwd = ''.join('std::string to_str(const %s& v);\n' % q for q, _ in structs)
    cv = ''.join('template <> struct conv<%s, void> { static const int kind = 7; static const int bits = 64; static %s from(uint64_t v); };\n' % (q, q) for q, _ in structs)
    cv += ''.join('inline %s conv<%s, void>::from(uint64_t v) { %s r; int sl = g_len_hint, ss = g_str_hint; if (v %% 3) g_len_hint = (int)((v / 3) %% 5); if (v %% 3 == 1) g_str_hint = 3; %s g_len_hint = sl; g_str_hint = ss; return r; }\n' % (q, q, q, ' '.join('fill(r.%s, mix(v, %d));' % (f, i + 1) for i, f in enumerate(fs))) for q, fs in structs)
    defs = ''.join('inline std::string to_str(const %s& v) { std::string s = "{"; %s return s + "}"; }\n' % (q, ' '.join('s += "%s%s=" + to_str_any(v.%s, 0);' % (',' if i else '', f, f) for i, f in enumerate(fs))) for q, fs in structs)
    L = [HEADER.replace('//@STRUCT_FWD@\n', fwd).replace('//@STRUCT_CONV@\n', cv), defs]
    # order: most derived first for dispatch
    def depth(c):
        d = 0
        cur = c
        while res.get(cur) and res[cur]['bases'] and res[cur]['bases'][0] in res:
            cur = res[cur]['bases'][0]
            d += 1
        return d
    order = sorted([c for c in classes if res.get(c)], key=lambda c: -depth(c))
    for c in order:
        g, s = accessors_of(c, res)
        table[c] = {'getters': sorted(g), 'setters': {k: s[k] for k in sorted(s) if k in g}, 'setters_without_getter': sorted(k for k in s if k not in g),
                    'getter_types': {k: g[k] for k in sorted(g) if k in s}}
        L.append('inline void describe_%s(const %s& p, std::ostream& os) {' % (c, c))
        L.append('    os << "%s";' % c)
        for name in sorted(g):
            if ' @' in g[name]:
                L.append('    VACC_GET_AS(os, p, %s, %s);' % (g[name].split(' @')[1], name))
            else:
                L.append('    VACC_GET(os, p, %s);' % name)
        L.append('}')
    L.append('inline void describe_layer(const PDU& pdu, std::ostream& os) {')
    for c in order:
        L.append('    if (const %s* p = dynamic_cast<const %s*>(&pdu)) { describe_%s(*p, os); return; }' % (c, c, c))
    L.append('    if (const RawPDU* r = dynamic_cast<const RawPDU*>(&pdu)) { os << "RawPDU payload=" << to_str(r->payload()); return; }')
    L.append('    os << "Unknown type=" << (int)pdu.pdu_type();')
    L.append('}')
    L.append('inline std::string describe(const PDU& pdu) {')
    L.append('    std::ostringstream os; bool first = true;')
    L.append('    for (const PDU* p = &pdu; p; p = p->inner_pdu()) { if (!first) os << " | "; first = false; describe_layer(*p, os); }')
    L.append('    return os.str();')
    L.append('}')
    # type rows: what the object answers to (matches_flag with every class's pdu_flag; find_pdu / tins_cast rest on it) against
    # what it is (dynamic_cast to every class) -- in whatever STATE the object is in
    flagged = [c for c in order if not res[c].get('abstract') or True]
    L.append('inline std::string type_names() { return "%s"; }' % ' '.join(flagged))
    L.append('inline std::string type_rows(const PDU& pdu) {')
    L.append('    std::string m = "M", d = "D";')
    for c in flagged:
        L.append('    m += pdu.matches_flag(%s::pdu_flag) ? " 1" : " 0"; d += dynamic_cast<const %s*>(&pdu) ? " 1" : " 0";' % (c, c))
    L.append('    return m + " " + d;')
    L.append('}')
    # a search by the object's own exact class, started at the object, finds the object itself
    L.append('inline int self_find(const PDU& pdu) {')
    for c in flagged:
        if res[c].get('abstract'):
            continue
        L.append('    if (typeid(pdu) == typeid(%s)) return pdu.find_pdu<%s>() == &pdu ? 1 : 0;' % (c, c))
    L.append('    if (typeid(pdu) == typeid(RawPDU)) return pdu.find_pdu<RawPDU>() == &pdu ? 1 : 0;')
    L.append('    return -1;')
    L.append('}')
    # setters
    L.append('// returns 1 when the (class, field) setter exists and was called')
    L.append('inline int set_field(PDU& pdu, const std::string& cls, const std::string& field, uint64_t v) {')
    for c in order:
        t = table[c]
        if not t['setters']:
            continue
        L.append('    if (cls == "%s") { %s* p = dynamic_cast<%s*>(&pdu); if (!p) return 0;' % (c, c, c))
        for f in t['setters']:
            L.append('        if (field == "%s") { call_setter(*p, &%s::%s, v); return 1; }' % (f, c, f))
        L.append('        return 0; }')
    L.append('    return 0;')
    L.append('}')
    L.append('// the printed form of the value set_field() would pass for v ("" when there is no such setter)')
    L.append('inline std::string value_of(const std::string& cls, const std::string& field, uint64_t v) {')
    for c in order:
        t = table[c]
        if not t['setters']:
            continue
        L.append('    if (cls == "%s") {' % c)
        for f in t['setters']:
            L.append('        if (field == "%s") return value_str(&%s::%s, v);' % (f, c, f))
        L.append('        return ""; }')
    L.append('    return "";')
    L.append('}')
    # construction
    from_buf, dflt = [], []
    for c in order:
        info = res[c]
        if info.get('abstract'):
            continue
        for ct in info.get('ctors', []):
            ps = [x.replace(' ', '') for x in ct['params']]
            if ps[:2] == ['constuint8_t*', 'uint32_t'] and len(ps) - ct['ndefault'] <= 2 and c not in from_buf:
                from_buf.append(c)
            if len(ps) - ct['ndefault'] <= 0 and c not in dflt:
                dflt.append(c)
    L.append('inline PDU* construct_from(const std::string& cls, const uint8_t* b, uint32_t n) {')
    for c in from_buf:
        L.append('    if (cls == "%s") return new %s(b, n);' % (c, c))
    L.append('    if (cls == "Dot11::from_bytes") return Dot11::from_bytes(b, n);')
    L.append('    return 0;')
    L.append('}')
    L.append('inline PDU* construct_default(const std::string& cls) {')
    for c in dflt:
        L.append('    if (cls == "%s") return new %s();' % (c, c))
    L.append('    return 0;')
    L.append('}')
    L.append('// one line per (class, field) setter/getter pair: class field kind bits   (kind 0 = argument type not scalar)')
    L.append('inline std::string list_fields() {')
    L.append('    std::ostringstream os;')
    for c in order:
        for f in table[c]['setters']:
            L.append('    describe_setter(os, "%s", "%s", &%s::%s);' % (c, f, c, f))
    L.append('    return os.str();')
    L.append('}')
    L.append('} // namespace vacc')
    text = '\n'.join(L) + '\n'
    path = os.path.join(V, 'build', 'accessors_gen.h')
    if not os.path.exists(path) or open(path).read() != text:
        open(path, 'w').write(text)
    json.dump({'classes': order, 'table': table, 'missing': missing, 'from_buffer': from_buf + ['Dot11::from_bytes'], 'default_constructible': dflt}, open(os.path.join(V, 'build', 'accessors.json'), 'w'), indent=1)
    return {'ok': not missing, 'classes': len(order), 'structs': len(structs), 'getters': sum(len(t['getters']) for t in table.values()),
            'setter_pairs': sum(len(t['setters']) for t in table.values()), 'missing': missing}


if __name__ == '__main__':
    print(generate())
