#!/usr/bin/env python3
"""Class-table translator for C13.

Scans /repo/include/tins for every class that declares `pdu_flag`, generates a C++ program that
is compiled against the CURRENT headers and library, runs it, and emits

  coq/Gen/ClassTable.v   : for each concrete class K: name, flag, pdu_type() of a live instance,
                            the set of flags f with matches_flag(f), the set of classes T with is_base_of<T,K>
  build/classtable.json  : what find_pdu<T>, tins_cast<T*>, dynamic_cast<T*> answered on live objects

so the Coq theorem is about the table the code itself produced on this run.
"""
import os, re, sys, json, subprocess, glob

V = os.environ.get('VERIF_ROOT') or os.path.dirname(os.path.dirname(os.path.abspath(__file__)))
REPO = os.environ.get('VERIF_REPO', '/repo')
CACHER_OF = ['IP', 'TCP', 'EthernetII', 'Dot11Beacon', 'DHCP', 'UDP', 'ICMPv6', 'Dot11QoSData']


def scan_classes():
    classes = []
    for f in sorted(glob.glob(os.path.join(REPO, 'include/tins/**/*.h'), recursive=True)):
        if f.endswith('pdu_cacher.h'):
            continue
        txt = open(f, errors='replace').read()
        cur = None
        for line in txt.splitlines():
            m = re.match(r'\s*class\s+(?:TINS_API\s+)?([A-Za-z_0-9]+)\s*(?::[^;{]*)?\{?\s*$', line)
            if m and not line.strip().endswith(';'):
                cur = m.group(1)
            if re.search(r'static\s+const\s+PDU::PDUType\s+pdu_flag\s*=', line) and cur:
                classes.append((cur, os.path.relpath(f, os.path.join(REPO, 'include'))))
    seen = []
    for c in classes:
        if c[0] not in [s[0] for s in seen]:
            seen.append(c)
    return seen


PPI_SAMPLE = '00002000690000000200140000000000000000000000000000000000000000000000000080000000ffffffffffff00000000000000000000000000000000'
SAMPLES = {
    # classes without a default constructor get built from a buffer
    'PPI': PPI_SAMPLE,
    'RawPDU': '0102',
    'PKTAP': '6c000000' + '01000000' + '00' * 100 + '00' * 20,
}


def gen_cpp(classes):
    names = [c[0] for c in classes]
    incs = sorted(set(c[1] for c in classes))
    L = []
    L.append('#include <tins/tins.h>\n#include <tins/pdu_cacher.h>\n#include <type_traits>\n#include <cstdio>\n#include <vector>\n#include <string>\n#include <memory>')
    for i in incs:
        L.append('#include <%s>' % i)
    L.append('using namespace Tins;')
    L.append('static std::vector<uint8_t> unhex(const char* s){std::vector<uint8_t> b; for(;s[0]&&s[1];s+=2){unsigned v; sscanf(s,"%2x",&v); b.push_back((uint8_t)v);} return b;}')
    L.append('template<class K, bool D> struct Maker { static PDU* make(const char*) { return 0; } };')
    L.append('template<class K> struct Maker<K, true> { static PDU* make(const char*) { return new K(); } };')
    L.append('template<class K> PDU* from_buf(const char* hexs) { std::vector<uint8_t> b = unhex(hexs); try { PDU* p = new K(b.data(), (uint32_t)b.size()); p->inner_pdu(0); return p; } catch (...) { return 0; } }')
    allT = names
    L.append('static const int NT = %d;' % len(allT))
    L.append('static const char* TNAMES[] = {%s};' % ', '.join('"%s"' % n for n in allT))
    L.append('static const int TFLAGS[] = {%s};' % ', '.join('(int)%s::pdu_flag' % n for n in allT))
    L.append('template<class K> void row(const char* kname, PDU* obj, int kflag) {')
    L.append('  printf("K %s %d %d\\n", kname, kflag, obj ? (int)obj->pdu_type() : -1);')
    L.append('  if (!obj) return;')
    L.append('  printf("M"); for (int i = 0; i < NT; ++i) printf(" %d", obj->matches_flag((PDU::PDUType)TFLAGS[i]) ? 1 : 0); printf("\\n");')
    L.append('  printf("B");')
    for t in allT:
        L.append('  printf(" %%d", std::is_base_of<%s, K>::value ? 1 : 0);' % t)
    L.append('  printf("\\n");')
    L.append('  printf("F");')
    for t in allT:
        L.append('  printf(" %%d", obj->find_pdu<%s>() ? 1 : 0);' % t)
    L.append('  printf("\\n");')
    L.append('  printf("C");')
    for t in allT:
        L.append('  printf(" %%d", tins_cast<%s*>(obj) ? 1 : 0);' % t)
    L.append('  printf("\\n");')
    L.append('  printf("D");')
    for t in allT:
        L.append('  printf(" %%d", dynamic_cast<%s*>(obj) ? 1 : 0);' % t)
    L.append('  printf("\\n");')
    L.append('  printf("S"); for (int i = 0; i < NT; ++i) printf(" %d", 0); printf("\\n");')
    L.append('  delete obj;')
    L.append('}')
    L.append('int main() {')
    L.append('  printf("T"); for (int i = 0; i < NT; ++i) printf(" %s:%d", TNAMES[i], TFLAGS[i]); printf("\\n");')
    for k in names:
        if k in SAMPLES:
            L.append('  row<%s>("%s", from_buf<%s>("%s"), (int)%s::pdu_flag);' % (k, k, k, SAMPLES[k], k))
        else:
            L.append('  row<%s>("%s", Maker<%s, std::is_default_constructible<%s>::value && !std::is_abstract<%s>::value>::make(0), (int)%s::pdu_flag);' % (k, k, k, k, k, k))
    for x in CACHER_OF:
        if x in names:
            L.append('  row<PDUCacher<%s> >("PDUCacher_%s", new PDUCacher<%s>(), (int)PDUCacher<%s>::pdu_flag);' % (x, x, x, x))
    L.append('  return 0;\n}')
    return '\n'.join(L) + '\n'


def generate(gen_dir):
    classes = scan_classes()
    os.makedirs(os.path.join(V, 'build'), exist_ok=True)
    src = os.path.join(V, 'build', 'classtable.cpp')
    exe = os.path.join(V, 'build', 'classtable')
    open(src, 'w').write(gen_cpp(classes))
    cmd = ['g++', '-std=c++11', '-O0', '-I%s/include' % REPO, '-I%s/build/asan/include' % V, src, '-o', exe,
           '-fsanitize=address,undefined', os.path.join(V, 'build/asan/lib/libtins.a'), '-lpcap', '-lssl', '-lcrypto', '-lpthread']
    p = subprocess.run(cmd, stdout=subprocess.PIPE, stderr=subprocess.STDOUT, universal_newlines=True)
    if p.returncode != 0:
        return {'ok': False, 'why': 'classtable.cpp does not compile: ' + p.stdout[-1500:]}
    p = subprocess.run([exe], stdout=subprocess.PIPE, stderr=subprocess.PIPE, universal_newlines=True,
                       env=dict(os.environ, ASAN_OPTIONS='detect_leaks=0'))
    if p.returncode != 0:
        return {'ok': False, 'why': 'classtable crashed: ' + p.stderr[-1500:]}
    lines = p.stdout.splitlines()
    tnames = [x.split(':')[0] for x in lines[0].split()[1:]]
    tflags = [int(x.split(':')[1]) for x in lines[0].split()[1:]]
    rows = []
    i = 1
    noinst = []
    while i < len(lines):
        t = lines[i].split()
        assert t[0] == 'K'
        name, kflag, ktype = t[1], int(t[2]), int(t[3])
        if ktype == -1:
            noinst.append(name)
            i += 1
            continue
        M = [int(x) for x in lines[i + 1].split()[1:]]
        B = [int(x) for x in lines[i + 2].split()[1:]]
        F = [int(x) for x in lines[i + 3].split()[1:]]
        Cc = [int(x) for x in lines[i + 4].split()[1:]]
        D = [int(x) for x in lines[i + 5].split()[1:]]
        rows.append(dict(name=name, flag=kflag, type=ktype, M=M, B=B, F=F, C=Cc, D=D))
        i += 7
    # Coq table: classes are numbered by position in tnames; cachers get numbers after them
    allnames = tnames + [r['name'] for r in rows if r['name'] not in tnames]
    out = ['(* GENERATED by translate/gen_classtable.py from the current headers and library -- do not edit *)',
           'From Coq Require Import ZArith List.', 'Import ListNotations.', 'Local Open Scope Z_scope.', '',
           '(* class ids: ' + ', '.join('%d=%s' % (i, n) for i, n in enumerate(allnames)) + ' *)',
           '(* classes that declare pdu_flag but have no live instance here (abstract / no default constructor): ' + ', '.join(noinst) + ' *)',
           '', '(* askable classes T: (id, flag) *)',
           'Definition targets : list (Z * Z) := [' + '; '.join('(%d, %d)' % (i, f) for i, f in enumerate(tflags)) + '].', '',
           'Record krow := mkrow { k_id : Z; k_flag : Z; k_type : Z; k_matches : list Z (* flags accepted by matches_flag *); k_bases : list Z (* ids T with is_base_of<T,K> *) }.', '',
           'Definition classes : list krow := [']
    rs = []
    for r in rows:
        kid = allnames.index(r['name'])
        mflags = sorted(set(tflags[j] for j in range(len(tnames)) if r['M'][j]))
        bases = [j for j in range(len(tnames)) if r['B'][j]]
        rs.append('  mkrow %d %d %d [%s] [%s]' % (kid, r['flag'], r['type'], '; '.join(map(str, mflags)), '; '.join(map(str, bases))))
    out.append(';\n'.join(rs))
    out.append('].')
    out.append('')
    out.append('(* rows that are PDUCacher<X> instantiations *)')
    out.append('Definition cacher_ids : list Z := [' + '; '.join(str(allnames.index(r['name'])) for r in rows if r['name'].startswith('PDUCacher_')) + '].')
    text = '\n'.join(out) + '\n'
    path = os.path.join(gen_dir, 'ClassTable.v')
    if not os.path.exists(path) or open(path).read() != text:
        open(path, 'w').write(text)
    json.dump({'tnames': tnames, 'tflags': tflags, 'rows': rows, 'noinst': noinst, 'allnames': allnames},
              open(os.path.join(V, 'build', 'classtable.json'), 'w'))
    return {'ok': True, 'classes': len(rows), 'targets': len(tnames), 'no_instance': noinst}


if __name__ == '__main__':
    print(generate(os.path.join(V, 'coq', 'Gen')))
