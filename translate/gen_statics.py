#!/usr/bin/env python3
"""Inventory translator for C18: every object with static storage duration that the CURRENT build of libtins places in a
writable section (.data, .bss, .tdata, .tbss; not .data.rel.ro, not .rodata), classified from the CURRENT sources
-> coq/Gen/Statics.v and build/statics.json.

classes
  0 guard      guard variable of a function-local / template static (written by the C++ runtime under its own lock)
  1 constant   const-qualified object with dynamic initialisation: written once before main() starts, read-only afterwards
  2 table      non-const object with a constant initialiser that the sources never write (checked textually in its translation unit)
  3 registry   the user-facing allocator registry: written only through the explicit registration API
  4 runtime    owned by the C++ runtime / boost headers, not by libtins (iostream init object, boost::icl identity element)
  5 hook       this verification's own guarded hook pointer
  9 MUTABLE    anything else: hidden mutable shared state
"""
import os, re, sys, json, subprocess

V = os.environ.get('VERIF_ROOT') or os.path.dirname(os.path.dirname(os.path.abspath(__file__)))
REPO = os.environ.get('VERIF_REPO', '/repo')
LIB = os.path.join(V, 'build', 'asan', 'lib', 'libtins.a')
NOISE = re.compile(r'__asan|__odr_asan|__ubsan|\.LASAN|\.Lubsan|__sancov|DW\.ref\.|^\.data|^\.bss|^\.tbss|^\.tdata')


def source_text():
    out = {}
    for root in ('src', 'include'):
        for d, _, files in os.walk(os.path.join(REPO, root)):
            for f in files:
                if f.endswith(('.cpp', '.h')):
                    p = os.path.join(d, f)
                    out[os.path.relpath(p, REPO)] = open(p, errors='replace').read()
    return out


def classify(sym, member, texts):
    """-> (class, why)"""
    if sym.startswith('guard variable for '):
        return 0, 'guard variable'
    if sym.startswith('std::') or sym.startswith('boost::') or sym.startswith('__gnu') or '__ioinit' in sym:
        return 4, 'C++ runtime / boost'
    if 'VerifHooks' in sym:
        return 5, 'verification hook (guarded by TINS_VERIF_HOOKS)'
    if 'PDUAllocator' in sym and (sym.endswith('::allocators') or sym.endswith('::pdu_types')):
        # the registry may be written only by the registration functions: no operator[] / insert / erase / clear elsewhere
        t = texts.get('include/tins/pdu_allocator.h', '')
        name = sym.split('::')[-1]
        for m in re.finditer(r'\b%s\s*(\[|\.\s*(insert|erase|clear|emplace|swap)\b)' % name, t):
            # the enclosing function: nearest preceding "name(" at the start of a definition
            head = t[:m.start()]
            fn = re.findall(r'\n\s*(?:static\s+)?(?:template\s*<[^>]*>\s*)?[\w:<>*&, ]+?\b(\w+)\s*\([^;{}]*\)\s*(?:const\s*)?\{', head)
            if not fn or not fn[-1].startswith('register'):
                return 9, 'registry %s is written in %s() (include/tins/pdu_allocator.h)' % (name, fn[-1] if fn else '?')
        return 3, 'allocator registry (written only by register_allocator)'
    base = re.sub(r'\(.*$', '', sym)            # function-local statics are reported as "function(args)::name"
    local = None
    m = re.search(r'\)::(\w+)$', sym)
    if m:
        local = m.group(1)
    name = local or base.split('::')[-1].split('<')[0]
    # find the defining declaration(s)
    decl = re.compile(r'^[^\n;{}()]*\b(static\s+)?(const\s+)?[\w:<>, ]*\b%s\b\s*(\[[^\]]*\])?\s*(\(|=|\{|;)' % re.escape(name), re.M)
    found_const, found_nonconst, files = False, False, []
    for f, t in texts.items():
        for mm in decl.finditer(t):
            line = mm.group(0)
            if 'return' in line or 'typedef' in line or line.strip().startswith(('//', '*', '#')):
                continue
            if not re.search(r'\b(static|const|extern)\b', line) and '::' + name not in line and not f.startswith('src'):
                continue
            files.append(f)
            if re.search(r'\bconst\b', line):
                found_const = True
            else:
                found_nonconst = True
    if found_const and not found_nonconst:
        return 1, 'const-qualified in ' + ', '.join(sorted(set(files))[:3])
    if found_const and found_nonconst:
        # declared const somewhere (header) and defined elsewhere: accept when every definition line in src/ carries const
        src_lines = [mm.group(0) for f, t in texts.items() if f.startswith('src') for mm in decl.finditer(t)]
        if src_lines and all(re.search(r'\bconst\b', l) for l in src_lines):
            return 1, 'const-qualified definitions in src/'
    if found_nonconst:
        # never written?  (assignment, compound assignment, increment, passed by non-const pointer is not detected)
        # a write: assignment / compound assignment / increment of the object, of an element or of a member (any depth of . -> []),
        # a call of a mutating container member, or its address / a reference to it escaping into a non-const context
        chain = r'(\s*(\[[^\]]*\]|(\.|->)\s*\w+))*'
        wr = re.compile(r'\b%s\b%s\s*(=[^=]|\+=|-=|\*=|/=|\|=|&=|\^=|<<=|>>=|\+\+|--)|(\+\+|--)\s*%s\b|\b%s\b%s\s*(\.|->)\s*(clear|push_back|emplace_back|emplace|insert|erase|assign|resize|swap|reserve|pop_back|reset)\s*\(|std::swap\s*\([^;]*\b%s\b'
                        % (re.escape(name), chain, re.escape(name), re.escape(name), chain, re.escape(name)))
        writers = []
        for f in set(files):
            t = texts[f]
            for mm in wr.finditer(t):
                ctx = t[max(0, mm.start() - 120): mm.end() + 40]
                # the initialiser itself is not a write
                if re.search(r'(static|const)[^;{}]*\b%s\b\s*(\[[^\]]*\])?\s*=\s*[{\w"(]' % re.escape(name), ctx):
                    continue
                writers.append(f)
        if not writers:
            return 2, 'constant initialiser, never written in ' + ', '.join(sorted(set(files))[:3])
        return 9, 'written in ' + ', '.join(sorted(set(writers))[:3])
    return 9, 'no declaration found'


def inventory():
    out = subprocess.run(['objdump', '-t', '-C', LIB], capture_output=True, text=True).stdout
    member = None
    items = {}
    for line in out.splitlines():
        if line.endswith(':     file format elf64-x86-64') or ': ' in line and 'file format' in line:
            member = line.split(':')[0]
            continue
        parts = line.split()
        if len(parts) < 5:
            continue
        # SYMBOL TABLE line: value flags... section size name
        m = re.match(r'^[0-9a-f]+\s+(.{7})\s+(\S+)\s+([0-9a-f]+)\s+(.*)$', line)
        if not m:
            continue
        flags, section, size, name = m.group(1), m.group(2), int(m.group(3), 16), m.group(4).strip()
        if not re.match(r'^\.(data|bss|tdata|tbss)', section) or 'rel.ro' in section:
            continue
        name = re.sub(r'^\.hidden\s+', '', name)
        if size == 0 or NOISE.search(name):
            continue
        if 'O' not in flags and 'o' not in flags.lower():
            continue
        items.setdefault(name, (section.split('.')[1], size, member))
    return items


def generate(gen_dir):
    st = {'ok': True}
    try:
        texts = source_text()
        inv = inventory()
        rows = []
        for name in sorted(inv):
            sec, size, member = inv[name]
            cls, why = classify(name, member, texts)
            rows.append({'symbol': name, 'section': sec, 'size': size, 'object': member, 'class': cls, 'why': why})
        os.makedirs(os.path.join(V, 'build'), exist_ok=True)
        json.dump(rows, open(os.path.join(V, 'build', 'statics.json'), 'w'), indent=1)
        esc = lambda s: s.replace('\\', '\\\\').replace('"', "'")
        text = ('(* GENERATED by translate/gen_statics.py from the current build of /repo (objdump of libtins.a) and its sources -- do not edit *)\n'
                'From Coq Require Import ZArith List String.\nImport ListNotations.\nLocal Open Scope Z_scope.\nLocal Open Scope string_scope.\n\n'
                '(* (symbol, class, size): every libtins object with static storage in a writable section.  Classes: 0 guard, 1 const object initialised\n'
                '   before main, 2 never-written table, 3 allocator registry, 4 runtime/boost, 5 verification hook, 9 mutable shared state *)\n'
                'Definition statics : list (string * Z * Z) :=\n  [' + ';\n   '.join('("%s", %d, %d)' % (esc(r['symbol'])[:150], r['class'], r['size']) for r in rows) + '].\n')
        p = os.path.join(gen_dir, 'Statics.v')
        if not os.path.exists(p) or open(p).read() != text:
            open(p, 'w').write(text)
        st['statics'] = {'ok': True, 'objects': len(rows), 'mutable': [r['symbol'] for r in rows if r['class'] == 9]}
    except Exception as e:
        st['ok'] = False
        st['statics'] = {'ok': False, 'why': str(e)}
    return st


if __name__ == '__main__':
    print(json.dumps(generate(os.path.join(V, 'coq', 'Gen')), indent=1))
    for r in json.load(open(os.path.join(V, 'build', 'statics.json'))):
        print(r['class'], r['size'], r['symbol'][:80], '|', r['why'][:70])
